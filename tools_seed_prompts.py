#!/usr/bin/env python3
"""Generate the prompts (and scratch worktrees) of a seeding round: one sub-agent per claimed property gets the property text,
its own worktree of /repo's HEAD and the list of ideas already tried for that property (so that it looks elsewhere) - nothing
from /verif.   usage: tools_seed_prompts.py <round letter>"""
import json, os, subprocess, sys
V = os.path.dirname(os.path.abspath(__file__))
rnd = sys.argv[1]
props = {json.loads(l)["id"]: json.loads(l) for l in open(os.path.join(V, "properties.jsonl"))}
claimed = [c["id"] if isinstance(c, dict) else c for c in json.load(open(os.path.join(V, "MANIFEST.json")))["properties"]] \
    if False else [p for p in sorted(props) if p not in ("C17", "C19")]
tried = {}
for d in sorted(os.listdir(os.path.join(V, "seeded"))):
    mp = os.path.join(V, "seeded", d, "meta.json")
    if os.path.exists(mp):
        m = json.load(open(mp))
        tried.setdefault(m["breaks_property"], []).append(m.get("needs_to_manifest", "")[:220])
os.makedirs("/tmp/seed", exist_ok=True)
os.makedirs("/tmp/seed_out", exist_ok=True)
for pid in claimed:
    p = props[pid]
    sid = pid + rnd
    wt, out = "/tmp/seed/" + sid, "/tmp/seed_out/" + sid
    subprocess.run("git -C /repo worktree remove --force %s; rm -rf %s %s; git -C /repo worktree add -q %s HEAD; mkdir -p %s" % (wt, wt, out, wt, out),
                   shell=True, capture_output=True)
    earlier = "\n".join("   - " + t for t in tried.get(pid, []))
    pk = ""
    if pid in ("C18", "C20"):
        pk = ("\nNote: `synapgrad.nn.utils` imports `pkbar`, which cannot be imported in this environment; in demo.py install a stub before importing it:\n"
              "    import sys, types; pk = types.ModuleType('pkbar'); pk.Kbar = type('Kbar', (), {'__init__': lambda s,*a,**k: None, 'update': lambda s,*a,**k: None, 'add': lambda s,*a,**k: None}); sys.modules['pkbar'] = pk\n")
    txt = f"""You are helping to evaluate a verification tool by producing a realistic regression ("seeded bug") in a Python library.

The library is pgmesa/synapgrad (a pure-Python/NumPy reverse-mode autograd engine with a PyTorch-like API). You have your own scratch git worktree of it at: {wt}
Work ONLY inside that directory and write your deliverables to {out} . Do NOT read, list or use anything under /verif, /root/.claude, /root/.vp or /root/synapgrad-probes, and do not touch /repo itself.

The property your change must break:

Property {pid}: {p['title']}

Statement: {p['statement']}

Quantified over: {p['quantifier']['text']}

Your task: make a small source change to the library code under {wt}/synapgrad (not the tests) that BREAKS this property, while
  (1) the package still imports and "compiles",
  (2) the existing test-suite still passes exactly as before: run it with
        cd {wt} && PYTHONPATH={wt} /venv/bin/python -m pytest -q -p no:cacheprovider --timeout=900
      (93 passed on the unchanged tree; it must still be 93 passed),
  (3) the change looks like something a maintainer could plausibly commit (a refactor slip, an "optimisation", a wrong axis/sign/index, a missed case, a stale cache, an aliasing/in-place slip, a validation that is a little too loose or too strict ...), not sabotage that announces itself.

Important: prefer a change that needs something SPECIFIC to manifest - a particular argument combination or shape, an unusual but legal input, a multi-step sequence of calls, a particular mode/flag combination, or two cooperating sites that each look fine alone - rather than one that ordinary use would expose at once. Several earlier attempts exist for this property; please do NOT repeat any of them (neither the same site nor the same idea). What each of them needed in order to show:
{earlier}
Pick a clause, operation, option or call sequence of the property that none of these touches - read the property text and the library's public API closely and look for the corner that is easiest to overlook (an option nobody passes, a default, a second call, an unusual but documented argument form, an interaction between two features). The library's recent history (`git -C {wt} log --oneline | head -80`) shows many small "fix:" commits: code that was repaired recently - argument validation, special values, dtype handling, bookkeeping of modes and gradients - is a good place to look for a plausible regression too.
{pk}
Make sure that python imports the worktree copy, not /repo: run things with PYTHONPATH={wt} and check synapgrad.__file__ starts with {wt}.

Deliverables in {out} :
  - patch.diff : output of `git -C {wt} diff` (the source change only; leave the change applied in the worktree too)
  - demo.py : a small stand-alone program (uses `import synapgrad`, numpy; may use torch which is installed) that exits 0 on the UNCHANGED library and exits non-zero (assertion failure) on the changed library, demonstrating the violated property through the public API. It must be run as: PYTHONPATH=<tree> /venv/bin/python demo.py
  - notes.md : 5-10 lines: what you changed, why the tests do not notice, what exactly is needed for it to manifest.
Verify yourself: demo.py fails with the change, passes without it (use `git -C {wt} apply -R {out}/patch.diff` to remove and `git -C {wt} apply {out}/patch.diff` to re-apply the change; do NOT use `git stash`, the stash is shared with other worktrees), and the test-suite result is unchanged with the change applied. Report briefly what you did.
"""
    open(os.path.join(out, "prompt.txt"), "w").write(txt)
    print(sid, len(tried.get(pid, [])), "earlier attempts listed")
