#!/verif/.venv/bin/python
"""API audit: which parameters of the library's public callables do the quick-tier configurations ever pass with a non-default
value (and with which kinds of value)?  Every E1 configuration is run once in plain mode (no solver) with the public functions
and constructors wrapped.  Prints, per callable, the parameters that were never given explicitly / never with a value different
from the default - the "options nobody passes" that seeded changes keep finding.   usage: tools_api_audit.py [tier]"""
import importlib, inspect, json, os, sys, collections, random
sys.path.insert(0, os.path.dirname(os.path.abspath(__file__)))
from vf import common
common.load_repo()
from vf.symnum import engine as E
import numpy as np

tier = sys.argv[1] if len(sys.argv) > 1 else "quick"
MODS = ["synapgrad.functional", "synapgrad.nn.functional", "synapgrad.nn.layers", "synapgrad.nn.activations", "synapgrad.nn.losses",
        "synapgrad.nn.init", "synapgrad.optim.optimizers", "synapgrad.conv_tools", "synapgrad.nn.utils.data", "synapgrad.nn.utils.train",
        "synapgrad.tensor"]
seen = collections.defaultdict(lambda: collections.defaultdict(set))     # qualname -> param -> kinds of explicit non-default values
calls = collections.Counter()
sigs = {}


def kind(v):
    if isinstance(v, bool): return "bool"
    if isinstance(v, np.generic): return "np." + type(v).__name__
    if isinstance(v, (list, tuple)): return type(v).__name__ + "[" + ",".join(sorted({kind(i) for i in v})) + "]"
    return type(v).__name__ if v is not None else "None"


def wrap(owner, name, fn, qual):
    try:
        sig = inspect.signature(fn)
    except (TypeError, ValueError):
        return
    sigs[qual] = sig

    def w(*a, **k):
        calls[qual] += 1
        try:
            b = sig.bind_partial(*a, **k)
            for pn, v in b.arguments.items():
                p = sig.parameters[pn]
                if pn in ("self", "x", "tensor", "a", "x1", "x2", "x3", "input", "grad") or p.kind in (p.VAR_POSITIONAL, p.VAR_KEYWORD):
                    continue
                d = p.default
                try:
                    same = (d is not inspect._empty) and (v is d or (type(v) == type(d) and v == d))
                except Exception:
                    same = False
                if not same:
                    seen[qual][pn].add(kind(v))
        except TypeError:
            pass
        return fn(*a, **k)
    w.__wrapped__ = fn
    w.__name__ = getattr(fn, "__name__", name)
    w.__doc__ = fn.__doc__
    setattr(owner, name, w)


for mn in MODS:
    m = importlib.import_module(mn)
    for name, obj in list(vars(m).items()):
        if name.startswith("_") or getattr(obj, "__module__", None) != mn:
            continue
        if inspect.isfunction(obj):
            wrap(m, name, obj, mn.replace("synapgrad.", "") + "." + name)
        elif inspect.isclass(obj):
            for meth in ("__init__",) + tuple(n for n, f in vars(obj).items() if inspect.isfunction(f) and not n.startswith("_")):
                f = vars(obj).get(meth)
                if inspect.isfunction(f):
                    wrap(obj, meth, f, mn.replace("synapgrad.", "") + "." + name + "." + meth)
# re-export: names imported elsewhere by `from x import y` keep the unwrapped function; the Tensor methods and the nn namespace
# go through the modules above at call time, which is what the catalogue uses
import synapgrad
for nm in ("stack", "concat", "unbind", "addmm", "tensor", "ones", "zeros", "arange", "eye", "empty", "ones_like", "zeros_like"):
    src = sys.modules["synapgrad.functional"] if hasattr(sys.modules["synapgrad.functional"], nm) else sys.modules["synapgrad.tensor"]
    if hasattr(src, nm):
        setattr(synapgrad, nm, getattr(src, nm))

n_cfg = 0
for c in ("c01", "c02", "c03", "c04", "c05", "c06", "c08", "c10", "c11", "c13", "c14", "c15", "c16", "c18", "c20"):
    mod = importlib.import_module("vf.checks." + c)
    try:
        specs = mod.enumerate_specs(tier)
    except TypeError:
        specs = mod.enumerate_specs(tier, 0)
    if hasattr(mod, "nonfinite_specs"):
        specs = specs + mod.nonfinite_specs()
    for sp in specs:
        try:
            case = mod.build(sp)
            E.run_plain(case, {}, "plain64", True)
            n_cfg += 1
        except Exception:
            pass
print("configurations run in plain mode:", n_cfg)
never_called = sorted(q for q in sigs if calls[q] == 0)
print("\ncallables never called:", ", ".join(never_called))
print("\nparameters never passed explicitly with a non-default value (callable: parameters):")
for q in sorted(sigs):
    if calls[q] == 0:
        continue
    miss = [pn for pn, p in sigs[q].parameters.items()
            if pn not in ("self", "x", "tensor", "a", "x1", "x2", "x3", "input", "grad") and p.kind not in (p.VAR_POSITIONAL, p.VAR_KEYWORD)
            and p.default is not inspect._empty and not seen[q].get(pn)]
    if miss:
        print("  %s: %s" % (q, ", ".join(miss)))
print("\nkinds of values seen per parameter:")
for q in sorted(seen):
    print("  %s: %s" % (q, "; ".join("%s={%s}" % (pn, ",".join(sorted(ks))) for pn, ks in sorted(seen[q].items()))))
