"""(re)generate MANIFEST.json from the table below; run with any python3"""
import json, os
props = [json.loads(l) for l in open('properties.jsonl')]
NOTE = "floats modelled as reals; bounds on ranks/extents/geometry/history length as listed in the evidence; z3 trusted; the shim (ndarray subclass + np proxy) is validated per configuration against an un-instrumented run"
TECH = "symbolic execution of the real code on symbolic scalars + SMT (z3) proofs per path; counterexamples replayed on the plain code"
CHECKS = json.load(open('manifest_checks.json'))
man = {"version": 1, "setup_cmd": "sh ./setup.sh",
       "hooks": {"guard": "SYNAPGRAD_VERIF",
                 "enable": "none needed: instrumentation is done from outside by rebinding the module attribute `np` inside the synapgrad modules during a symbolic run; /repo carries no hook code",
                 "baseline_off_cmd": "cd /repo && /venv/bin/python -m pytest -ra -q -p no:cacheprovider --timeout=900 --continue-on-collection-errors",
                 "source_commits": [], "add_only": True},
       "engines": [], "checks": [], "notes": "see DESIGN.md; known findings and repaired defects in known_findings.json", "not_applicable": []}
eng = {}
for pid, c in sorted(CHECKS["checks"].items()):
    e = c.get("engine", "E1-symnum")
    eng.setdefault(e, []).append(pid)
    man["checks"].append({"property_id": pid, "quick_cmd": "./vcheck %s quick" % pid, "thorough_cmd": "./vcheck %s thorough" % pid,
                          "evidence_file": "evidence/%s.json" % pid, "replay_cmd_template": "./vcheck --replay {path}", "engine": e,
                          "level_claimed": {"category": c.get("category", "model_checking"), "text": c["text"], "design_ref": "DESIGN.md section 4 " + pid},
                          "level_note": c.get("note", NOTE), "technique": c.get("technique", TECH)})
ENG = {"E1-symnum": ("vf/symnum", "symbolic execution of the real NumPy-level code on object arrays of symbolic scalars; path exploration with solver-checked coverage; obligations lowered to z3 as fractions of polynomials"),
       "E2-crosshair": ("vf/crosshair_harness", "CrossHair (symbolic execution of Python with z3) on pure-Python state machines driven by bounded symbolic action histories"),
       "E3-ast2smt": ("vf/ast2smt.py", "source-to-SMT-LIB translation of integer index arithmetic, decided by z3 and cvc5")}
for e, pids in eng.items():
    man["engines"].append({"name": e, "path": ENG[e][0], "serves_properties": pids, "kind_free_text": ENG[e][1]})
for p in props:
    if p["id"] not in CHECKS["checks"]:
        man["not_applicable"].append({"property_id": p["id"], "reason": CHECKS["not_applicable"].get(p["id"], "check not built yet (work in progress)")})
json.dump(man, open('MANIFEST.json', 'w'), indent=1)
print("claimed", sorted(CHECKS["checks"]))
