#!/bin/sh
# Builds the overlay interpreter: /venv's python (the one the test-suite uses) + z3-solver + crosshair-tool
# from the offline wheelhouse.  Idempotent; every check calls it if the overlay is missing.
set -e
cd "$(dirname "$0")"
if [ -x .venv/bin/python ] && .venv/bin/python -c "import z3, crosshair, numpy" 2>/dev/null; then
  exit 0
fi
rm -rf .venv
/venv/bin/python -m venv .venv
echo "import site; site.addsitedir('/venv/lib/python3.12/site-packages')" > .venv/lib/python3.12/site-packages/_overlay.pth
PIP_NO_INDEX=1 .venv/bin/pip install -q --no-index --find-links /opt/veriftools/wheels z3-solver crosshair-tool >/dev/null
.venv/bin/python -c "import z3, crosshair, numpy; print('overlay ok: z3', z3.get_version_string(), 'numpy', numpy.__version__)"
