#!/usr/bin/env python3
"""re-base seeded patches that no longer apply to /repo's HEAD (later `fix:` commits touched their context): 3-way apply in
a scratch worktree, regenerate patch.diff from the result, note it in meta.json.   usage: tools_seed_refresh.py [ids...]"""
import json, os, subprocess, sys
V = os.path.dirname(os.path.abspath(__file__))
ids = sys.argv[1:] or sorted(d for d in os.listdir(os.path.join(V, "seeded")) if os.path.isdir(os.path.join(V, "seeded", d)))
head = subprocess.run("git -C /repo rev-parse --short HEAD", shell=True, capture_output=True, text=True).stdout.strip()


def sh(cmd):
    return subprocess.run(cmd, shell=True, capture_output=True, text=True)


for i in ids:
    d = os.path.join(V, "seeded", i)
    wt = "/tmp/seedrefresh_%s" % i
    sh("git -C /repo worktree remove --force %s" % wt)
    sh("git -C /repo worktree add -q %s HEAD" % wt)
    try:
        if sh("git -C %s apply --check %s/patch.diff" % (wt, d)).returncode == 0:
            continue
        r = sh("git -C %s apply --3way %s/patch.diff" % (wt, d))
        if r.returncode or "with conflicts" in r.stderr or sh("git -C %s diff --name-only --diff-filter=U" % wt).stdout.strip():
            print(i, "NEEDS MANUAL REBASE:", r.stderr.strip()[-200:])
            continue
        new = sh("git -C %s diff HEAD" % wt).stdout
        if not new.strip():
            print(i, "EMPTY after 3-way (the fix superseded it?)")
            continue
        if not os.path.exists(os.path.join(d, "patch.orig.diff")):
            os.rename(os.path.join(d, "patch.diff"), os.path.join(d, "patch.orig.diff"))
        open(os.path.join(d, "patch.diff"), "w").write(new)
        m = json.load(open(os.path.join(d, "meta.json")))
        m["rebased_onto"] = head
        json.dump(m, open(os.path.join(d, "meta.json"), "w"), indent=1)
        print(i, "rebased onto", head)
    finally:
        sh("git -C /repo worktree remove --force %s" % wt)
