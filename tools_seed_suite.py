#!/usr/bin/env python3
"""run the repository's own test-suite on every seeded change named (scratch worktree of /repo HEAD + patch) and record the
result line in seeded/<id>/meta.json   usage: tools_seed_suite.py <ids...>   (SEED_JOBS parallel jobs, default 4)"""
import json, os, subprocess, sys
from concurrent.futures import ThreadPoolExecutor
V = os.path.dirname(os.path.abspath(__file__))


def one(i):
    d = os.path.join(V, "seeded", i)
    wt = "/tmp/seedsuite_%s_%d" % (i, os.getpid())
    subprocess.run("git -C /repo worktree remove --force %s" % wt, shell=True, capture_output=True)
    if subprocess.run("git -C /repo worktree add -q %s HEAD" % wt, shell=True).returncode:
        return i, "worktree failed"
    try:
        if subprocess.run("git -C %s apply %s/patch.diff" % (wt, d), shell=True).returncode:
            return i, "patch does not apply to HEAD"
        p = subprocess.run(["/venv/bin/python", "-m", "pytest", "-q", "-p", "no:cacheprovider", "--timeout=900"], cwd=wt,
                           env=dict(os.environ, PYTHONPATH=wt), capture_output=True, text=True)
        last = [l for l in p.stdout.splitlines() if l.strip()][-1]
        failed = sorted(l.split()[1] for l in p.stdout.splitlines() if l.startswith("FAILED"))
        res = "%s; failing: %s" % (last.strip(), ", ".join(failed) or "none")
        m = json.load(open(os.path.join(d, "meta.json")))
        m["confirmed"]["suite_with_change"] = res
        json.dump(m, open(os.path.join(d, "meta.json"), "w"), indent=1)
        return i, res
    finally:
        subprocess.run("git -C /repo worktree remove --force %s" % wt, shell=True, capture_output=True)


with ThreadPoolExecutor(max_workers=int(os.environ.get("SEED_JOBS", "4"))) as ex:
    for i, r in ex.map(one, sys.argv[1:]):
        print(i, r, flush=True)
