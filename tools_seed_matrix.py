#!/usr/bin/env python3
"""Re-validate every seeded change against /repo's current HEAD: the patch must apply, the demonstration must pass
without and fail with it, and every check named in meta.json must raise VIOLATION on the patched tree (VERIF_REPO points
at a scratch worktree; /repo itself is never modified).  Writes seeded/MATRIX.json.   usage: tools_seed_matrix.py [ids...]"""
import json, os, subprocess, sys, shutil, time
from concurrent.futures import ThreadPoolExecutor
V = os.path.dirname(os.path.abspath(__file__))
ids = sys.argv[1:] or sorted(d for d in os.listdir(os.path.join(V, "seeded")) if os.path.isdir(os.path.join(V, "seeded", d)))


def sh(cmd, **kw):
    return subprocess.run(cmd, shell=True, capture_output=True, text=True, **kw)


def one(i):
    d = os.path.join(V, "seeded", i)
    meta = json.load(open(os.path.join(d, "meta.json")))
    wt, out = "/tmp/seedmatrix_%s" % i, "/tmp/seedmatrix_out_%s" % i
    sh("git -C /repo worktree remove --force %s; rm -rf %s %s" % (wt, wt, out))
    os.makedirs(out)
    r = {"id": i, "property": meta["breaks_property"], "checks": {}}
    if sh("git -C /repo worktree add -q %s HEAD" % wt).returncode:
        r["error"] = "worktree"
        return r
    try:
        env = dict(os.environ, PYTHONPATH=wt)
        r["demo_clean_exit"] = subprocess.run(["/venv/bin/python", os.path.join(d, "demo.py")], cwd=wt, env=env, capture_output=True).returncode
        ap = sh("git -C %s apply %s/patch.diff" % (wt, d))
        r["applies_to_head"] = ap.returncode == 0
        if not r["applies_to_head"]:
            ap = sh("git -C %s apply --3way %s/patch.diff" % (wt, d))
            r["applies_with_3way"] = ap.returncode == 0
            if ap.returncode:
                r["error"] = "patch does not apply: " + ap.stderr[-200:]
                return r
        r["demo_patched_exit"] = subprocess.run(["/venv/bin/python", os.path.join(d, "demo.py")], cwd=wt, env=env, capture_output=True).returncode
        for c in meta["caught_by"]:
            p = subprocess.run([os.path.join(V, "vcheck"), c, "quick"], cwd=V, env=dict(os.environ, VERIF_REPO=wt, VERIF_OUT=out), capture_output=True, text=True)
            r["checks"][c] = {"exit": p.returncode, "violations": p.stdout.count("\nVIOLATION") + p.stdout.startswith("VIOLATION")}
        r["caught"] = any(v["exit"] == 1 and v["violations"] > 0 for v in r["checks"].values())
    finally:
        sh("git -C /repo worktree remove --force %s; rm -rf %s" % (wt, out))
    return r


with ThreadPoolExecutor(max_workers=int(os.environ.get("SEED_JOBS", "3"))) as ex:
    res = list(ex.map(one, ids))
path = os.path.join(V, "seeded", "MATRIX.json")
old = {}
if os.path.exists(path) and sys.argv[1:]:
    old = {r["id"]: r for r in json.load(open(path))["seeds"]}
for r in res:
    old[r["id"]] = r
head = sh("git -C /repo rev-parse --short HEAD").stdout.strip()
json.dump({"repo_head": head, "at": time.strftime("%Y-%m-%d %H:%M:%S"), "seeds": [old[k] for k in sorted(old)]}, open(path, "w"), indent=1)
for r in res:
    print(r["id"], "caught" if r.get("caught") else "NOT CAUGHT", {k: v for k, v in r.items() if k not in ("id", "checks")}, r["checks"])
