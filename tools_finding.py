#!/usr/bin/env python3
"""append a `fixed` entry to known_findings.json   usage: tools_finding.py <property> <commit> "<what failed>" """
import json, os, sys
p = os.path.join(os.path.dirname(os.path.abspath(__file__)), "known_findings.json")
prop, commit, what = sys.argv[1:4]
d = json.load(open(p))
d["findings"].append({"status": "fixed", "property": prop, "commit": commit, "what": what,
                      "line": "fixed: property=%s %s %s" % (prop, commit, what)})
json.dump(d, open(p, "w"), indent=1)
print("recorded", prop, commit)
