"""validate MANIFEST.json and evidence files against the harness schemas (python3-vt has jsonschema)"""
import json, sys, glob, jsonschema
man = json.load(open('MANIFEST.json'))
jsonschema.validate(man, json.load(open('/root/.vp/MANIFEST.schema.json')))
es = json.load(open('/root/.vp/EVIDENCE.schema.json'))
for f in sorted(glob.glob('evidence/*.json')):
    jsonschema.validate(json.load(open(f)), es)
props = [json.loads(l)["id"] for l in open('properties.jsonl')]
claimed = [c["property_id"] for c in man["checks"]]
na = [c["property_id"] for c in man.get("not_applicable", [])]
assert sorted(claimed + na) == sorted(props), (claimed, na)
print("manifest ok; evidence ok:", len(glob.glob('evidence/*.json')), "claimed", claimed)
