"""Solver-based checking of pgmesa/synapgrad (see /verif/DESIGN.md)."""
