"""./vcheck <ID> quick|thorough   |   ./vcheck --replay <file>"""
from __future__ import annotations

import importlib
import json
import os
import sys


def main(argv):
    if len(argv) >= 2 and argv[0] == "--replay":
        from . import replaycmd
        return replaycmd.main(argv[1])
    if len(argv) < 1:
        print(__doc__)
        return 2
    prop = argv[0].upper()
    tier = argv[1] if len(argv) > 1 else os.environ.get("VERIF_TIER", "quick")
    seed = int(os.environ.get("VERIF_SEED", "0") or 0)
    mod = importlib.import_module("vf.checks." + prop.lower())
    from . import common
    common.load_repo()
    return mod.main(tier, seed)


if __name__ == "__main__":
    sys.exit(main(sys.argv[1:]))
