"""Process-level set-up shared by every check: import the package under test from the *current working
tree* of the repository, stub the one third-party import that cannot be satisfied offline."""
from __future__ import annotations

import os
import sys
import types

REPO = os.environ.get("VERIF_REPO", "/repo")
VERIF = os.path.dirname(os.path.dirname(os.path.abspath(__file__)))


def _stub_pkbar():
    if "pkbar" in sys.modules:
        return
    m = types.ModuleType("pkbar")

    class Kbar:  # progress bar only (listed as a stub in the evidence)
        def __init__(self, *a, **k):
            pass

        def update(self, *a, **k):
            pass

        def add(self, *a, **k):
            pass

    m.Kbar = Kbar
    sys.modules["pkbar"] = m


def load_repo():
    """import synapgrad from REPO (never from an installed copy)."""
    if REPO not in sys.path:
        sys.path.insert(0, REPO)
    _stub_pkbar()
    import synapgrad  # noqa: F401
    import synapgrad.nn  # noqa: F401
    import synapgrad.optim  # noqa: F401
    import synapgrad.nn.utils.data  # noqa: F401  (imported up front so that the np proxy can be bound in it)
    try:
        import synapgrad.nn.utils.train  # noqa: F401  (needs matplotlib / sklearn; only C20 uses it)
    except Exception:  # noqa: BLE001
        pass
    mod = sys.modules["synapgrad"]
    assert os.path.abspath(mod.__file__).startswith(os.path.abspath(REPO)), mod.__file__
    return mod


def tensor_mod():
    # the package __init__ shadows the submodule name with the function ``tensor``
    return sys.modules["synapgrad.tensor"]


def grad_enabled():
    """gradient mode observed through the public API: a fresh product of a tensor that asks for gradients requires grad
    exactly when gradient mode is on (no reliance on the module-level flag the pinned tree keeps it in)"""
    import numpy as np
    import synapgrad
    x = synapgrad.Tensor(np.ones((1,), dtype=np.float32), requires_grad=True)
    return bool((x * 2.0).requires_grad)


def reset_modes():
    """best effort: put the pinned tree's module-level mode flags back to their defaults, if it still has them"""
    tm = tensor_mod()
    if hasattr(tm, "gradient__"):
        tm.gradient__ = True
    if hasattr(tm, "retain_grads__"):
        tm.retain_grads__ = False
