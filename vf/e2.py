"""E2 - CrossHair on pure-Python state machines.

A harness template is instantiated once per partition (a fixed first action), written to a scratch module, and
`crosshair check --report_all` explores every path of the interpreter loop over the remaining symbolic action
history with z3.  Only "Confirmed over all paths" counts as discharged; counterexamples are parsed and replayed in
a plain interpreter; each partition has a reachability twin (post: False must be refuted)."""
from __future__ import annotations

import ast
import importlib.util
import json
import os
import re
import subprocess
import sys
import time
from concurrent.futures import ThreadPoolExecutor

from . import common

CACHE = os.path.join(common.VERIF, ".cache", "e2")

PRELUDE = '''
import sys, os, atexit, types
REPO = os.environ.get("VERIF_REPO", "/repo")
if REPO not in sys.path:
    sys.path.insert(0, REPO)
if "pkbar" not in sys.modules:
    _pk = types.ModuleType("pkbar")
    _pk.Kbar = type("Kbar", (object,), {"__init__": lambda s, *a, **k: None, "update": lambda s, *a, **k: None, "add": lambda s, *a, **k: None})
    sys.modules["pkbar"] = _pk
_PATHS = [0]
atexit.register(lambda: sys.stderr.write("PATHCOUNT %d\\n" % _PATHS[0]))
'''


def write_module(name, body):
    os.makedirs(CACHE, exist_ok=True)
    path = os.path.join(CACHE, name + ".py")
    with open(path, "w") as f:
        f.write(PRELUDE + "\n" + body)
    return path


def _line_of(path, func):
    with open(path) as f:
        for i, ln in enumerate(f, 1):
            if ln.startswith("def %s(" % func):
                return i + 1
    raise KeyError(func)


_RE = re.compile(r"^(?P<file>[^:]+):(?P<line>\d+): (?P<kind>info|error): (?P<msg>.*)$")


def run_one(path, func, timeout, twin=False):
    """-> dict(status, message, call, paths, wall_s)"""
    t0 = time.time()
    line = _line_of(path, func)
    cmd = [sys.executable, "-W", "ignore", "-m", "crosshair", "check", "--report_all",
           "--per_condition_timeout", str(timeout), "--per_path_timeout", str(max(5, timeout // 4)),
           "%s:%d" % (path, line)]
    env = dict(os.environ)
    env["PYTHONDONTWRITEBYTECODE"] = "1"
    try:
        p = subprocess.run(cmd, capture_output=True, text=True, timeout=int(timeout * 1.5) + 120, env=env, cwd=os.path.dirname(path))
        out = p.stdout + "\n" + p.stderr
    except subprocess.TimeoutExpired as e:
        return {"func": func, "status": "unknown", "message": "crosshair process exceeded its wall limit", "paths": 0,
                "wall_s": round(time.time() - t0, 1), "call": None}
    paths = 0
    m = re.search(r"PATHCOUNT (\d+)", out)
    if m:
        paths = int(m.group(1))
    status, message, call = "unknown", "", None
    for ln in out.splitlines():
        mm = _RE.match(ln.strip())
        if not mm:
            continue
        msg = mm.group("msg")
        if mm.group("kind") == "info" and "Confirmed over all paths" in msg:
            status, message = "confirmed", msg
        elif mm.group("kind") == "info":
            status, message = "unknown", msg       # Not confirmed / Unable to meet precondition / unknown
        else:
            status, message = "counterexample", msg
            c = re.search(r"when calling (.*?)(?: \(which |$)", msg)
            if c:
                call = c.group(1).strip()
            break
    if status == "unknown" and not message:
        message = out.strip()[-300:]
    return {"func": func, "status": status, "message": message, "call": call, "paths": paths,
            "wall_s": round(time.time() - t0, 1)}


def replay_call(path, call):
    """run `func(args)` from the harness module in a plain interpreter -> (violates, detail)"""
    code = ("import importlib.util, sys\n"
            "spec = importlib.util.spec_from_file_location('h', %r)\n"
            "m = importlib.util.module_from_spec(spec); spec.loader.exec_module(m)\n"
            "try:\n"
            "    r = eval('m.' + %r)\n"
            "    print('RESULT', repr(r))\n"
            "except Exception as e:\n"
            "    print('RAISED', type(e).__name__, e)\n") % (path, call)
    p = subprocess.run([sys.executable, "-W", "ignore", "-c", code], capture_output=True, text=True, timeout=120)
    out = p.stdout.strip().splitlines()
    last = out[-1] if out else p.stderr.strip()[-200:]
    if last.startswith("RESULT"):
        val = last[len("RESULT "):]
        return (val != "True"), "plain interpreter: %s returns %s" % (call, val)
    return True, "plain interpreter: %s -> %s" % (call, last)


def run_partitions(path, funcs, timeout, procs=16):
    with ThreadPoolExecutor(max_workers=procs) as ex:
        return list(ex.map(lambda f: run_one(path, f, timeout), funcs))
