"""E2 - CrossHair on pure-Python state machines.

A harness template is instantiated once per partition (a fixed first action), written to a scratch module, and
`crosshair check --report_all` explores every path of the interpreter loop over the remaining symbolic action
history with z3.  Only "Confirmed over all paths" counts as discharged; counterexamples are parsed and replayed in
a plain interpreter; each partition has a reachability twin (post: False must be refuted)."""
from __future__ import annotations

import ast
import importlib.util
import json
import os
import re
import subprocess
import sys
import time
from concurrent.futures import ThreadPoolExecutor

from . import common

CACHE = os.path.join(common.VERIF, ".cache", "e2")

PRELUDE = '''
import sys, os, atexit, types
REPO = os.environ.get("VERIF_REPO", "/repo")
if REPO not in sys.path:
    sys.path.insert(0, REPO)
if "pkbar" not in sys.modules:
    _pk = types.ModuleType("pkbar")
    _pk.Kbar = type("Kbar", (object,), {"__init__": lambda s, *a, **k: None, "update": lambda s, *a, **k: None, "add": lambda s, *a, **k: None})
    sys.modules["pkbar"] = _pk
_PATHS = [0]
atexit.register(lambda: sys.stderr.write("PATHCOUNT %d\\n" % _PATHS[0]))

# ---- observation of the library's state through its public API (private names are used only while they exist)
_LEFT = []          # contexts entered by an iteration that was aborted before it could leave them
_MISSING = object()


def _reset_modes():
    while _LEFT:
        try:
            _LEFT.pop().__exit__(None, None, None)
        except Exception:
            pass
    import synapgrad
    tm = sys.modules["synapgrad.tensor"]
    if hasattr(tm, "gradient__"):
        tm.gradient__ = True
    if hasattr(tm, "retain_grads__"):
        tm.retain_grads__ = False


def _g(t):
    """the gradient array a tensor holds, or None"""
    g = getattr(t, "_grad", _MISSING)
    if g is not _MISSING:
        return g
    import io, contextlib
    with contextlib.redirect_stdout(io.StringIO()):
        gt = t.grad
    return None if gt is None else gt.data


def _setg(t, arr):
    if hasattr(t, "_grad"):
        t._grad = arr
    else:
        import synapgrad
        t.grad = synapgrad.Tensor(arr)


def _mode():
    """(gradient mode, retain mode or None when it cannot be observed) - by behaviour: a fresh product requires grad iff
    gradient mode is on; an intermediate result keeps its gradient after backward iff retain mode is on"""
    import numpy as np
    import synapgrad
    from crosshair.tracers import NoTracing
    with NoTracing():
        x = synapgrad.Tensor(np.ones((1,), dtype=np.float32), requires_grad=True)
        y = x * 2.0
        if not y.requires_grad:
            return (False, None)
        z = y * 3.0
        z.backward(synapgrad.Tensor(np.ones((1,), dtype=np.float32)))
        return (True, _g(y) is not None)


def _mode_is(want):
    g, r = _mode()
    return g == want[0] and (r is None or r == want[1])
'''


def write_module(name, body):
    os.makedirs(CACHE, exist_ok=True)
    path = os.path.join(CACHE, name + ".py")
    with open(path, "w") as f:
        f.write(PRELUDE + "\n" + body)
    return path


def _line_of(path, func):
    with open(path) as f:
        for i, ln in enumerate(f, 1):
            if ln.startswith("def %s(" % func):
                return i + 1
    raise KeyError(func)


_RE = re.compile(r"^(?P<file>[^:]+):(?P<line>\d+): (?P<kind>info|error): (?P<msg>.*)$")


def run_one(path, func, timeout, twin=False):
    """-> dict(status, message, call, paths, wall_s)"""
    t0 = time.time()
    line = _line_of(path, func)
    cmd = [sys.executable, "-W", "ignore", "-m", "crosshair", "check", "--report_all",
           "--per_condition_timeout", str(timeout), "--per_path_timeout", str(max(5, timeout // 4)),
           "%s:%d" % (path, line)]
    env = dict(os.environ)
    env["PYTHONDONTWRITEBYTECODE"] = "1"
    try:
        p = subprocess.run(cmd, capture_output=True, text=True, timeout=int(timeout * 1.5) + 120, env=env, cwd=os.path.dirname(path))
        out = p.stdout + "\n" + p.stderr
    except subprocess.TimeoutExpired as e:
        return {"func": func, "status": "unknown", "message": "crosshair process exceeded its wall limit", "paths": 0,
                "wall_s": round(time.time() - t0, 1), "call": None}
    paths = 0
    m = re.search(r"PATHCOUNT (\d+)", out)
    if m:
        paths = int(m.group(1))
    status, message, call = "unknown", "", None
    for ln in out.splitlines():
        mm = _RE.match(ln.strip())
        if not mm:
            continue
        msg = mm.group("msg")
        if mm.group("kind") == "info" and "Confirmed over all paths" in msg:
            status, message = "confirmed", msg
        elif mm.group("kind") == "info":
            status, message = "unknown", msg       # Not confirmed / Unable to meet precondition / unknown
        else:
            status, message = "counterexample", msg
            c = re.search(r"when calling (.*?)(?: \(which |$)", msg)
            if c:
                call = c.group(1).strip()
            break
    if status == "unknown" and not message:
        message = out.strip()[-300:]
    return {"func": func, "status": status, "message": message, "call": call, "paths": paths,
            "wall_s": round(time.time() - t0, 1)}


def replay_call(path, call):
    """run `func(args)` from the harness module in a plain interpreter -> (violates, detail).  An exception counts only if
    it was raised by the code under test: one raised by the harness module itself (e.g. it reaches for a private name the
    tree no longer has) is a harness error -> (None, detail), which the caller reports as inconclusive."""
    code = ("import importlib.util, sys, os\n"
            "spec = importlib.util.spec_from_file_location('h', %r)\n"
            "m = importlib.util.module_from_spec(spec); spec.loader.exec_module(m)\n"
            "try:\n"
            "    r = eval('m.' + %r)\n"
            "    print('RESULT', repr(r))\n"
            "except Exception as e:\n"
            "    repo = os.path.realpath(os.environ.get('VERIF_REPO', '/repo')) + os.sep\n"
            "    tb, where = e.__traceback__, 'harness'\n"
            "    frames = []\n"
            "    while tb is not None:\n"
            "        frames.append(os.path.realpath(tb.tb_frame.f_code.co_filename)); tb = tb.tb_next\n"
            "    for fn in reversed(frames):\n"
            "        if fn.startswith(repo): where = 'repo'; break\n"
            "        if fn == os.path.realpath(%r): where = 'harness'; break\n"
            "    print('RAISED', where, type(e).__name__, e)\n") % (path, call, path)
    p = subprocess.run([sys.executable, "-W", "ignore", "-c", code], capture_output=True, text=True, timeout=120)
    out = p.stdout.strip().splitlines()
    last = out[-1] if out else p.stderr.strip()[-200:]
    if last.startswith("RESULT"):
        val = last[len("RESULT "):]
        return (val != "True"), "plain interpreter: %s returns %s" % (call, val)
    if last.startswith("RAISED harness"):
        return None, "harness error in the plain interpreter: %s -> %s" % (call, last[len("RAISED harness "):])
    return True, "plain interpreter: %s -> %s" % (call, last)


def run_partitions(path, funcs, timeout, procs=16):
    with ThreadPoolExecutor(max_workers=procs) as ex:
        return list(ex.map(lambda f: run_one(path, f, timeout), funcs))
