"""E3 - source-to-SMT for integer index arithmetic.

The body of a (straight-line) Python function is read from the repository's *current* source, evaluated symbolically
over its AST into SMT-LIB2 terms (Python int -> Int, `/` -> real division, np.floor/int -> to_int, `//` -> div), and
obligations over the resulting terms are decided by two independent solvers (z3 and cvc5), which must agree."""
from __future__ import annotations

import ast
import inspect
import os
import subprocess
import tempfile
import textwrap
import time


class Unsup(Exception):
    pass


class Term:
    __slots__ = ("s", "sort")

    def __init__(self, s, sort):
        self.s = s
        self.sort = sort      # 'Int' | 'Real'

    def real(self):
        return self.s if self.sort == "Real" else "(to_real %s)" % self.s


def lit(v):
    if isinstance(v, bool):
        raise Unsup("bool literal")
    if isinstance(v, int):
        return Term(str(v) if v >= 0 else "(- %d)" % -v, "Int")
    if isinstance(v, float):
        from fractions import Fraction
        f = Fraction(v)
        s = "(/ %d.0 %d.0)" % (abs(f.numerator), f.denominator)
        return Term(s if f >= 0 else "(- %s)" % s, "Real")
    raise Unsup("literal %r" % (v,))


class Translator:
    """symbolic evaluation of straight-line code; `env` maps Python names / attribute paths / subscripts to Terms"""

    def __init__(self, env):
        self.env = dict(env)
        self.ret = None

    def key(self, node):
        if isinstance(node, ast.Name):
            return node.id
        if isinstance(node, ast.Attribute):
            return self.key(node.value) + "." + node.attr
        if isinstance(node, ast.Subscript):
            idx = node.slice
            if isinstance(idx, ast.Constant):
                return "%s[%r]" % (self.key(node.value), idx.value)
        raise Unsup(ast.dump(node))

    def ev(self, node):
        if isinstance(node, ast.Constant):
            return lit(node.value)
        if isinstance(node, (ast.Name, ast.Attribute, ast.Subscript)):
            k = self.key(node)
            if k in self.env:
                return self.env[k]
            raise Unsup("unbound %s" % k)
        if isinstance(node, ast.UnaryOp) and isinstance(node.op, ast.USub):
            a = self.ev(node.operand)
            return Term("(- %s)" % a.s, a.sort)
        if isinstance(node, ast.BinOp):
            a, b = self.ev(node.left), self.ev(node.right)
            op = node.op
            if isinstance(op, (ast.Add, ast.Sub, ast.Mult)):
                sym = {ast.Add: "+", ast.Sub: "-", ast.Mult: "*"}[type(op)]
                if a.sort == b.sort == "Int":
                    return Term("(%s %s %s)" % (sym, a.s, b.s), "Int")
                return Term("(%s %s %s)" % (sym, a.real(), b.real()), "Real")
            if isinstance(op, ast.Div):
                return Term("(/ %s %s)" % (a.real(), b.real()), "Real")
            if isinstance(op, ast.FloorDiv):
                if a.sort == b.sort == "Int":
                    return Term("(div %s %s)" % (a.s, b.s), "Int")
                raise Unsup("floor division of reals")
            raise Unsup("operator %s" % type(op).__name__)
        if isinstance(node, ast.Call):
            fn = node.func
            try:
                name = self.key(fn) if isinstance(fn, (ast.Name, ast.Attribute)) else None
            except Unsup:
                name = None
            if name in ("int", "np.floor", "math.floor"):
                a = self.ev(node.args[0])
                return a if a.sort == "Int" else Term("(to_int %s)" % a.s, "Int")
            if name == "len":
                k = "len(%s)" % self.key(node.args[0])
                if k in self.env:
                    return self.env[k]
                raise Unsup("unbound %s" % k)
            if isinstance(fn, ast.Attribute) and fn.attr == "item" and not node.args:
                return self.ev(fn.value)
            if name == "float":
                a = self.ev(node.args[0])
                return Term(a.real(), "Real")
            raise Unsup("call %s" % name)
        raise Unsup(type(node).__name__)

    def run(self, stmts):
        for st in stmts:
            if isinstance(st, ast.Assign) and len(st.targets) == 1:
                tgt = st.targets[0]
                if isinstance(tgt, ast.Tuple):
                    if isinstance(st.value, ast.Tuple) and len(st.value.elts) == len(tgt.elts):
                        vals = [self.ev(v) for v in st.value.elts]
                        for t, v in zip(tgt.elts, vals):
                            self.env[self.key(t)] = v
                        continue
                    raise Unsup("tuple assignment")
                try:
                    self.env[self.key(tgt)] = self.ev(st.value)
                except Unsup:
                    # statements the property does not depend on (slicing the data, broadcasting helpers ...) are skipped;
                    # anything needed later will surface as 'unbound'
                    continue
            elif isinstance(st, ast.Return):
                v = st.value
                if isinstance(v, ast.Tuple):
                    self.ret = [self.ev(e) for e in v.elts]
                else:
                    try:
                        self.ret = self.ev(v)
                    except Unsup:
                        self.ret = None
                return
            elif isinstance(st, ast.Expr):
                continue
            else:
                continue


def function_body(func):
    src = textwrap.dedent(inspect.getsource(func))
    tree = ast.parse(src)
    fn = tree.body[0]
    body = fn.body
    if body and isinstance(body[0], ast.Expr) and isinstance(getattr(body[0], "value", None), ast.Constant):
        body = body[1:]
    return body, src


# ------------------------------------------------------------------------------------------------ solvers
def _run(cmd, text, timeout):
    t0 = time.time()
    try:
        p = subprocess.run(cmd, input=text, capture_output=True, text=True, timeout=timeout)
        out = p.stdout + p.stderr
    except subprocess.TimeoutExpired:
        out = "timeout"
    return out, time.time() - t0


def solve_batch(decls, queries, timeout=120, logic="ALL"):
    """queries: list of lists of assertion strings; each is checked under push/pop in ONE solver process per solver.
    -> {'z3': [...], 'cvc5': [...]} of 'sat' | 'unsat' | 'unknown'"""
    lines = ["(set-logic %s)" % logic] + decls
    for q in queries:
        lines.append("(push 1)")
        lines += ["(assert %s)" % a for a in q]
        lines.append("(check-sat)")
        lines.append("(pop 1)")
    text = "\n".join(lines) + "\n"
    res = {}
    out, dt = _run(["/usr/bin/z3", "-in", "-T:%d" % timeout], text, timeout + 10)
    res["z3"] = _parse(out, len(queries))
    res["z3_s"] = dt
    with tempfile.NamedTemporaryFile("w", suffix=".smt2", delete=False) as f:
        f.write(text)
        path = f.name
    try:
        out, dt = _run(["cvc5", "--incremental", "--tlimit=%d" % (timeout * 1000), path], "", timeout + 10)
    finally:
        os.unlink(path)
    res["cvc5"] = _parse(out, len(queries))
    res["cvc5_s"] = dt
    return res


def _parse(out, n):
    if "(error" in out:
        return ["unknown"] * n          # an old solver may drop an assertion it cannot parse and still answer
    ans = [ln.strip() for ln in out.splitlines() if ln.strip() in ("sat", "unsat", "unknown")]
    if len(ans) != n:
        ans = (ans + ["unknown"] * n)[:n]
    return ans


def get_values(decls, pins, terms, timeout=60):
    """evaluate `terms` under the pinned variable values with z3 (translator validation)"""
    lines = ["(set-logic ALL)"] + decls + ["(assert (= %s %s))" % (k, v) for k, v in pins.items()]
    lines += ["(define-fun res%d () Int %s)" % (i, t) for i, t in enumerate(terms)]
    lines += ["(check-sat)", "(get-value (%s))" % " ".join("res%d" % i for i in range(len(terms)))]
    out, _ = _run(["/usr/bin/z3", "-in", "-T:%d" % timeout], "\n".join(lines) + "\n", timeout + 10)
    return out
