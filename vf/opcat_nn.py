"""Catalogue of the deep-learning building blocks (nn/functional.py, nn/layers.py, nn/losses.py,
nn/activations.py): argument grids, invocation through the functional API and through the layer modules,
definitional references (C06) and differentiable inputs (C02)."""
from __future__ import annotations

import itertools

import numpy as np

from .harness import OpDef, Inp, objarr, norm_dim
from .opcat_tensor import ssum, L
from .symnum.scalar import S
from .symnum import array as ar

REG = {}


def reg(cls):
    REG[cls.name] = cls()
    return cls


def NF():
    import synapgrad.nn.functional as F
    return F


def NN():
    from synapgrad import nn
    return nn


def sexp(x):
    return x.exp() if isinstance(x, S) else np.exp(x)


def slog(x):
    return x.log() if isinstance(x, S) else np.log(x)


def ssqrt(x):
    return x.sqrt() if isinstance(x, S) else np.sqrt(x)


def stanh(x):
    return x.tanh() if isinstance(x, S) else np.tanh(x)


def pick(group, is_max=True):
    """winner of a group of scalars; on symbolic scalars records the canonical constraint set"""
    if any(isinstance(v, S) for v in group):
        return group[ar._pick(group, is_max)]
    vals = [float(v) for v in group]
    return group[int(np.argmax(vals) if is_max else np.argmin(vals))]


# ------------------------------------------------------------------------------------------ activations
ACT_SH_Q = [(3,), (2, 2)]
ACT_SH_T = [(3,), (2, 2), (1, 2, 2), ()]


class _Act(OpDef):
    props = ("C02", "C06", "C10", "C11")
    fname = None
    mod = None

    def configs(self, tier):
        out = []
        for s in (ACT_SH_Q if tier == "quick" else ACT_SH_T):
            out.append({"a": L(s), "via": "F"})
        out.append({"a": [3], "via": "M"})
        return out

    def smooth_at_zero(self, args):
        # tanh and sigmoid are smooth at 0 (the relu family has its kink there)
        return self.name in ("tanh", "sigmoid") and int(np.prod(args["a"], dtype=int)) in (1, 2, 3)

    def inputs(self, args):
        return [Inp("a", args["a"])]

    def forward(self, args, ts, extra):
        if args["via"] == "M":
            return getattr(NN(), self.mod)()(ts[0])
        return getattr(NF(), self.fname)(ts[0])

    def f(self, x):
        raise NotImplementedError

    def reference(self, args, xs, extra):
        o = objarr(xs[0].shape)
        for idx in np.ndindex(*xs[0].shape):
            o[idx] = self.f(xs[0][idx])
        return o


@reg
class Relu(_Act):
    name = "relu"
    fname = "relu"
    mod = "ReLU"

    def f(self, x):
        return x if x > 0 else 0 * x


SELU_ALPHA = 1.6732632423543772848170429916717
SELU_SCALE = 1.0507009873554804934193349852946


@reg
class Selu(_Act):
    name = "selu"
    fname = "selu"
    mod = "SELU"

    def f(self, x):
        # constants are exact rationals in the model: keep the grouping scale * (alpha * (...)) so that no
        # float rounding of scale*alpha enters the reference
        return SELU_SCALE * x if x > 0 else SELU_SCALE * (SELU_ALPHA * (sexp(x) - 1))


@reg
class Tanh(_Act):
    name = "tanh"
    fname = "tanh"
    mod = "Tanh"

    def f(self, x):
        return stanh(x)


@reg
class Sigmoid(_Act):
    name = "sigmoid"
    fname = "sigmoid"
    mod = "Sigmoid"

    def f(self, x):
        return 1 / (1 + sexp(0 - x))


@reg
class LeakyRelu(_Act):
    name = "leaky_relu"

    def configs(self, tier):
        out = []
        for s in (ACT_SH_Q if tier == "quick" else ACT_SH_T):
            for slope in ([0.01, 0.5, -0.5] if tier == "quick" else [0.01, 0.5, 0.0, 0.2, -0.5, -0.01, 1.0, 2.0]):
                out.append({"a": L(s), "via": "F", "slope": slope})
        out.append({"a": [3], "via": "M", "slope": 0.1})
        out.append({"a": [3], "via": "F", "slope": None})
        out.append({"a": [2], "via": "F", "slope": 0.5, "np": True})     # the slope as a NumPy scalar
        out.append({"a": [2], "via": "M", "slope": 0.5, "np": True})
        return out

    def forward(self, args, ts, extra):
        sl = args["slope"]
        if args.get("np"):
            sl = np.float64(sl)
        if args["via"] == "M":
            return NN().LeakyReLU(sl)(ts[0])
        return NF().leaky_relu(ts[0]) if sl is None else NF().leaky_relu(ts[0], sl)

    def reference(self, args, xs, extra):
        sl = 0.01 if args["slope"] is None else args["slope"]
        o = objarr(xs[0].shape)
        for idx in np.ndindex(*xs[0].shape):
            x = xs[0][idx]
            o[idx] = x if x > 0 else sl * x
        return o


class _Softmax(OpDef):
    props = ("C02", "C06", "C10", "C11")
    log = False

    def configs(self, tier):
        out = []
        for s in ([(3,), (2, 3)] if tier == "quick" else [(3,), (2, 3), (2, 2, 2), (1, 2)]):
            for d in range(-len(s), len(s)):
                out.append({"a": L(s), "dim": d, "via": "F"})
        out.append({"a": [2, 2], "dim": 1, "via": "M"})
        out.append({"a": [2, 2], "dim": 0, "via": "M"})
        # rank 3 and 4 with the softmax dim among the leading ones (where "move the axis last and back" is not its own inverse)
        # (few groups: every group of logits multiplies the number of max-selection paths)
        out.append({"a": [2, 1, 2], "dim": 0, "via": "F"})
        out.append({"a": [2, 2, 2], "dim": -3, "via": "M"})
        out.append({"a": [1, 2, 1, 2], "dim": 1, "via": "F"})
        return out

    def illegal_configs(self, tier):
        return [{"a": [2, 3], "dim": 2, "via": "F"}, {"a": [2, 3], "dim": -3, "via": "F"}]

    def inputs(self, args):
        return [Inp("a", args["a"])]

    def forward(self, args, ts, extra):
        if args["via"] == "M":
            m = NN().LogSoftmax(args["dim"]) if self.log else NN().Softmax(args["dim"])
            return m(ts[0])
        return (NF().log_softmax if self.log else NF().softmax)(ts[0], args["dim"])

    def reference(self, args, xs, extra):
        x = xs[0]
        d = norm_dim(args["dim"], x.ndim)
        o = objarr(x.shape)
        for idx in np.ndindex(*x.shape):
            tot = ssum(sexp(x[idx[:d] + (k,) + idx[d + 1:]]) for k in range(x.shape[d]))
            o[idx] = (x[idx] - slog(tot)) if self.log else sexp(x[idx]) / tot
        return o


@reg
class Softmax(_Softmax):
    name = "softmax"


@reg
class LogSoftmax(_Softmax):
    name = "log_softmax"
    log = True
    compare_exp = True

    def epsilon_zero(self):
        return True


# ------------------------------------------------------------------------------------------ losses
RED = ["mean", "sum", "none"]


def _reduce_loss(o, red):
    if red == "none" or red is None:
        return o
    tot = ssum(o.reshape(-1))
    if red == "sum":
        return _s0(tot)
    return _s0(tot / o.size)


def _s0(v):
    o = objarr(())
    o[()] = v
    return o


class _PairLoss(OpDef):
    """losses on two float tensors of equal shape"""
    props = ("C02", "C06", "C10", "C11")
    fname = None
    mod = None
    pdom = {}
    tdom = {}
    t_differentiable = False

    def configs(self, tier):
        out = []
        for s in ([(3,), (2, 2)] if tier == "quick" else [(3,), (2, 2), (2, 1), ()]):
            out.append({"shape": L(s), "via": "F"})
            for red in RED:
                out.append({"shape": L(s), "via": "M", "red": red})
        out.append({"shape": [3], "via": "M", "red": None})      # None is documented as "no reduction", like 'none'
        return out

    def smooth_at_zero(self, args):
        return self.name == "mse_loss"      # a prediction that is exactly 0 (the exponentials of the BCE family branch too much)

    def illegal_configs(self, tier):
        # mismatching shapes; a reduction that is none of 'none' / 'mean' / 'sum' (it must not silently act as one of them)
        return [{"shape": [3], "tshape": [2], "via": "F"}, {"shape": [2, 2], "tshape": [2], "via": "F"},
                {"shape": [2, 2], "via": "M", "red": "avg"}, {"shape": [3], "via": "M", "red": "Mean"}]

    def inputs(self, args):
        if "values" in args:
            return [Inp("p", args["shape"], differentiable=False, concrete=np.array(args["values"]["p"], dtype=np.float32)),
                    Inp("t", args["shape"], differentiable=False, concrete=np.array(args["values"]["t"], dtype=np.float32))]
        return [Inp("p", args["shape"], **self.pdom),
                Inp("t", args.get("tshape", args["shape"]), differentiable=self.t_differentiable, **self.tdom)]

    def forward(self, args, ts, extra):
        if args["via"] == "M":
            return getattr(NN(), self.mod)(reduction=args["red"])(ts[0], ts[1])
        return getattr(NF(), self.fname)(ts[0], ts[1])

    def f(self, p, t):
        raise NotImplementedError

    def reference(self, args, xs, extra):
        p, t = xs
        o = objarr(p.shape)
        for idx in np.ndindex(*p.shape):
            o[idx] = self.f(p[idx], t[idx])
        return _reduce_loss(o, args.get("red", "none") if args["via"] == "M" else "none")


@reg
class MSE(_PairLoss):
    name = "mse_loss"
    fname = "mse_loss"
    mod = "MSELoss"
    t_differentiable = True

    def f(self, p, t):
        return (p - t) * (p - t)


@reg
class BCE(_PairLoss):
    name = "bce_loss"
    fname = "binary_cross_entropy"
    mod = "BCELoss"
    # probabilities bounded away from 0 and 1: there the clamp of the log terms at -100 is provably inactive (the clamp itself is
    # covered by the concrete configurations below); closer to the ends a double cannot even represent the solver's points
    pdom = dict(lo=1e-6, hi=1 - 1e-6)
    tdom = dict(lo=0, hi=1)
    t_differentiable = True      # the loss is affine in the target: a target that requires grad receives log((1-p)/p) * g

    def epsilon_zero(self):
        return True

    def f(self, p, t):
        if isinstance(p, (float, np.floating)):
            # special points, as PyTorch defines them: each log term is clamped at -100 (p = 0 with t = 1 gives 100)
            import math
            lp = max(math.log(p), -100.0) if p > 0 else -100.0
            l1 = max(math.log(1 - p), -100.0) if p < 1 else -100.0
            return -(float(t) * lp + (1 - float(t)) * l1)
        return 0 - (t * slog(p) + (1 - t) * slog(1 - p))

    def configs(self, tier):
        out = super().configs(tier)
        # probabilities at and near the ends of [0, 1], with the library's guard constant in place
        vals = {"p": [0.0, 1.0, 1e-13, 0.25, 1.0, 0.0], "t": [1.0, 0.0, 1.0, 0.5, 1.0, 0.0]}
        out.append({"shape": [6], "via": "F", "values": vals})
        out.append({"shape": [6], "via": "M", "red": "mean", "values": vals})
        return out


@reg
class BCEWithLogits(_PairLoss):
    name = "bce_with_logits"
    fname = "binary_cross_entropy_with_logits"
    mod = "BCEWithLogitsLoss"
    tdom = dict(lo=0, hi=1)
    t_differentiable = True      # d/dt = -x
    compare_exp = True

    def epsilon_zero(self):
        return True

    def exp_scale(self, args):
        if args.get("via") == "M" and args.get("red") == "mean":
            return int(np.prod(args["shape"], dtype=int))
        return 1

    def f(self, x, t):
        # -[t log sigma(x) + (1-t) log(1 - sigma(x))]  =  (1-t) x + log(1 + exp(-x))
        return (1 - t) * x + slog(1 + sexp(0 - x))


class _ClassLoss(OpDef):
    """losses on (N, C) scores and integer labels"""
    props = ("C02", "C06", "C10", "C11")
    fname = None
    mod = None
    compare_exp = False

    def configs(self, tier):
        out = []
        grid = [(1, 2), (2, 2), (2, 3)] if tier == "quick" else [(1, 2), (2, 2), (2, 3), (3, 2), (1, 1)]
        for n, c in grid:
            labs = list(itertools.product(range(c), repeat=n))
            if tier == "quick" and len(labs) > 4:
                labs = labs[:: max(1, len(labs) // 4)]
            for lab in labs:
                out.append({"n": n, "c": c, "labels": list(lab), "via": "F"})
            for red in RED:
                out.append({"n": n, "c": c, "labels": list(labs[-1]), "via": "M", "red": red})
        out.append({"n": 2, "c": 2, "labels": [1, 0], "via": "M", "red": None})      # None = no reduction
        return out

    def illegal_configs(self, tier):
        # labels out of range; labels that are not one class index per sample (PyTorch: "0D or 1D target tensor expected",
        # "Expected input batch_size to match target batch_size")
        return [{"n": 2, "c": 2, "labels": [0, 2], "via": "F"}, {"n": 2, "c": 2, "labels": [0, -3], "via": "F"},
                {"n": 2, "c": 3, "labels": [0, -1], "via": "F"}, {"n": 2, "c": 2, "labels": [-2, 1], "via": "M", "red": "mean"},   # negative indices must not wrap around
                {"n": 2, "c": 2, "labels": [1, 0], "via": "F", "extra_dim": 2},     # (N, C, d) scores with (N,) labels
                {"n": 2, "c": 2, "labels": [[1], [0]], "via": "F"}, {"n": 2, "c": 3, "labels": [[1], [0]], "via": "M", "red": "mean"},
                {"n": 2, "c": 2, "labels": [[1, 0]], "via": "F"}, {"n": 2, "c": 2, "labels": [1], "via": "M", "red": "sum"},
                {"n": 2, "c": 2, "labels": [1, 0, 1], "via": "F"}, {"n": 1, "c": 2, "labels": [1, 0], "via": "M", "red": "none"},
                {"n": 2, "c": 2, "labels": [1, 0], "via": "M", "red": "avg"}]

    def inputs(self, args):
        if "extra_dim" in args:
            return [Inp("p", (args["n"], args["c"], args["extra_dim"]))]
        return [Inp("p", (args["n"], args["c"]))]

    def forward(self, args, ts, extra):
        from vf.harness import T
        y = T()(np.array(args["labels"], dtype=np.int32))
        if args["via"] == "M":
            return getattr(NN(), self.mod)(reduction=args["red"])(ts[0], y)
        return getattr(NF(), self.fname)(ts[0], y)

    def per_sample(self, row, label):
        raise NotImplementedError

    def reference(self, args, xs, extra):
        p = xs[0]
        n = args["n"]
        o = objarr((n,))
        for i in range(n):
            lab = args["labels"][i]
            if not 0 <= lab < args["c"]:
                raise IndexError("label out of range")
            o[i] = self.per_sample([p[i, k] for k in range(args["c"])], lab)
        return _reduce_loss(o, args.get("red", "none") if args["via"] == "M" else "none")


@reg
class NLL(_ClassLoss):
    name = "nll_loss"
    fname = "nll_loss"
    mod = "NLLLoss"

    def per_sample(self, row, label):
        return 0 - row[label]


@reg
class CrossEntropy(_ClassLoss):
    name = "cross_entropy"
    fname = "cross_entropy"
    mod = "CrossEntropyLoss"
    compare_exp = True

    def epsilon_zero(self):
        return True

    def exp_scale(self, args):
        return args["n"] if (args.get("via") == "M" and args.get("red") == "mean") else 1

    def per_sample(self, row, label):
        return slog(ssum(sexp(v) for v in row)) - row[label]


# ------------------------------------------------------------------------------------------ linear
@reg
class Linear(OpDef):
    name = "linear"
    props = ("C02", "C06", "C10", "C11")

    def configs(self, tier):
        out = []
        for n, i, o in ([(2, 3, 2), (1, 2, 1)] if tier == "quick" else [(2, 3, 2), (1, 2, 1), (3, 1, 2), (2, 2, 3)]):
            for bias in (True, False):
                for via in ("F", "M"):
                    out.append({"n": n, "in": i, "out": o, "bias": bias, "via": via})
        out.append({"n": 2, "in": 2, "out": 2, "bias": True, "via": "F", "lead": [2]})
        out.append({"n": 1, "in": 2, "out": 1, "bias": False, "via": "F", "lead": [2]})
        out.append({"n": 2, "in": 3, "out": 1, "bias": True, "via": "Neuron"})
        out.append({"n": 2, "in": 3, "out": 1, "bias": False, "via": "Neuron"})
        return out

    def illegal_configs(self, tier):
        # wrong in_features; a bias that cannot be broadcast against the output (PyTorch's linear broadcasts its bias, so a
        # (1,) or (n, out) bias is legal there and not listed here)
        return [{"n": 2, "in": 3, "out": 2, "bias": True, "via": "M", "xin": 2},
                {"n": 2, "in": 3, "out": 2, "bias": True, "via": "F", "bshape": [3]}]

    def inputs(self, args):
        lead = tuple(args.get("lead", ()))      # extra leading batch dimensions (functional API only)
        ins = [Inp("x", lead + (args["n"], args.get("xin", args["in"]))), Inp("w", (args["out"], args["in"]), param=True)]
        if args["bias"]:
            ins.append(Inp("b", tuple(args.get("bshape", (args["out"],))), param=True))
        return ins

    def forward(self, args, ts, extra):
        if args["via"] == "F":
            return NF().linear(ts[0], ts[1], ts[2] if args["bias"] else None)
        if args["via"] == "Neuron":
            m = NN().Neuron(args["in"], bias=args["bias"])
        else:
            m = NN().Linear(args["in"], args["out"], bias=args["bias"])
        m.weight = ts[1]
        if args["bias"]:
            m.bias = ts[2]
        return m(ts[0])

    def reference(self, args, xs, extra):
        x, w = xs[0], xs[1]
        lead = tuple(args.get("lead", ()))
        o = objarr(lead + (args["n"], args["out"]))
        for idx in np.ndindex(*(lead + (args["n"],))):
            for j in range(args["out"]):
                v = ssum(x[idx + (k,)] * w[j, k] for k in range(args["in"]))
                if args["bias"]:
                    v = v + xs[2][j]
                o[idx + (j,)] = v
        return o


# ------------------------------------------------------------------------------------------ geometry helpers
def out_len(Lin, k, s, p, d):
    """floor((L + 2p - d(k-1) - 1)/s) + 1, by integer arithmetic"""
    num = Lin + 2 * p - d * (k - 1) - 1
    if num < 0:
        return 0
    return num // s + 1


def pair(v):
    return (v, v) if isinstance(v, int) else tuple(v)


def geo1d(tier):
    """(L, k, s, p, d) with a non-empty output"""
    out = []
    Ls = [4, 5] if tier == "quick" else [3, 4, 5, 6]
    for Lin in Ls:
        for k in (1, 2, 3):
            for s in (1, 2, 3):
                for p in (0, 1, 2):
                    for d in (1, 2):
                        if p > (d * (k - 1) + 1) // 2:      # PyTorch: padding at most half the dilated kernel
                            continue
                        if out_len(Lin, k, s, p, d) < 1:
                            continue
                        if tier == "quick" and (Lin + k + s + p + d) % 2 != 0:
                            continue
                        out.append((Lin, k, s, p, d))
    return out


def geo2d(tier):
    """((H,W),(kH,kW),(sH,sW),(pH,pW),(dH,dW)) with a non-empty output"""
    out = []
    HW = [(3, 4)] if tier == "quick" else [(3, 4), (4, 3), (2, 2), (5, 4)]
    kmax = 2 if tier == "quick" else 3
    n = 0
    for (H, W) in HW:
        for kH, kW in itertools.product(range(1, kmax + 1), repeat=2):
            for sH, sW in itertools.product((1, 2), repeat=2):
                for pH, pW in itertools.product((0, 1), repeat=2):
                    for dH, dW in itertools.product((1, 2), repeat=2):
                        if pH > (dH * (kH - 1) + 1) // 2 or pW > (dW * (kW - 1) + 1) // 2:
                            continue
                        if out_len(H, kH, sH, pH, dH) < 1 or out_len(W, kW, sW, pW, dW) < 1:
                            continue
                        n += 1
                        if tier == "quick" and n % 3 != 0:
                            continue
                        if tier != "quick" and kmax == 3 and (kH == 3 or kW == 3) and n % 3 != 0:
                            continue
                        out.append(((H, W), (kH, kW), (sH, sW), (pH, pW), (dH, dW)))
    return out


def form(v, how):
    """how the geometry argument is passed: 'i' int when both axes agree, else tuple; 't' always a tuple"""
    if how == "i" and v[0] == v[1]:
        return int(v[0])
    return [int(v[0]), int(v[1])]


def arg(v):
    return tuple(v) if isinstance(v, list) else v


def padded(x, p, fill):
    """x: (..., L) -> object array padded by p on the last axis"""
    sh = x.shape[:-1] + (x.shape[-1] + 2 * p,)
    o = objarr(sh)
    for idx in np.ndindex(*sh):
        j = idx[-1] - p
        o[idx] = x[idx[:-1] + (j,)] if 0 <= j < x.shape[-1] else fill
    return o


PAD = object()   # marker for a padded position


def win1d(x, n, c, l, k, s, p, d):
    """elements of the l-th window of x[n, c, :] ; PAD for padded positions"""
    out = []
    for u in range(k):
        j = l * s + u * d - p
        out.append(x[n, c, j] if 0 <= j < x.shape[2] else PAD)
    return out


def win2d(x, n, c, i, j, k, s, p, d):
    out = []
    for u in range(k[0]):
        for v in range(k[1]):
            a = i * s[0] + u * d[0] - p[0]
            b = j * s[1] + v * d[1] - p[1]
            out.append(x[n, c, a, b] if (0 <= a < x.shape[2] and 0 <= b < x.shape[3]) else PAD)
    return out


# ------------------------------------------------------------------------------------------ conv
# geometry arguments no sliding window can honour: a spacing or step that is zero, negative or fractional, negative padding
BAD_GEOMETRY = [("F", {"d": 0}), ("M", {"d": 0}), ("F", {"d": -1}), ("F", {"s": 0}), ("F", {"s": 1.5}), ("M", {"s": -1}),
                ("F", {"p": -1})]


@reg
class Conv1d(OpDef):
    name = "conv1d"
    props = ("C02", "C06", "C10", "C11")

    def may_reject(self, args):
        # 'same' padding whose total d*(k-1) is odd needs one more padded position on the right than on the left
        return args.get("p") == "same" and (args["d"] * (args["k"] - 1)) % 2 == 1

    def configs(self, tier):
        out = []
        for g in geo1d(tier):
            Lin, k, s, p, d = g
            for (n, ci, co) in ([(1, 2, 2)] if tier == "quick" else [(1, 2, 2), (2, 1, 1)]):
                for bias in (True, False):
                    out.append({"N": n, "Ci": ci, "Co": co, "L": Lin, "k": k, "s": s, "p": p, "d": d, "bias": bias,
                                "via": "F"})
            out.append({"N": 1, "Ci": 1, "Co": 2, "L": Lin, "k": k, "s": s, "p": p, "d": d, "bias": True, "via": "M"})
        out.append({"N": 1, "Ci": 1, "Co": 1, "L": 4, "k": 3, "s": 1, "p": "same", "d": 1, "bias": False, "via": "M"})
        out.append({"N": 1, "Ci": 1, "Co": 1, "L": 4, "k": 3, "s": 1, "p": "same", "d": 2, "bias": True, "via": "M"})
        out.append({"N": 1, "Ci": 1, "Co": 1, "L": 3, "k": 2, "s": 1, "p": "same", "d": 2, "bias": False, "via": "M"})   # even kernel, even dilation
        out.append({"N": 1, "Ci": 1, "Co": 1, "L": 4, "k": 4, "s": 1, "p": "same", "d": 2, "bias": False, "via": "M"})
        out.append({"N": 1, "Ci": 1, "Co": 1, "L": 4, "k": 2, "s": 1, "p": "same", "d": 1, "bias": False, "via": "M"})   # odd total
        out.append({"N": 1, "Ci": 1, "Co": 1, "L": 5, "k": 2, "s": 1, "p": "same", "d": 3, "bias": False, "via": "M"})   # odd total
        out.append({"N": 1, "Ci": 1, "Co": 1, "L": 4, "k": 2, "s": 1, "p": "valid", "d": 1, "bias": False, "via": "M"})
        return out

    def illegal_configs(self, tier):
        return [{"N": 1, "Ci": 1, "Co": 1, "L": 2, "k": 3, "s": 1, "p": 0, "d": 1, "bias": False, "via": "F"},
                {"N": 1, "Ci": 1, "Co": 1, "L": 3, "k": 2, "s": 1, "p": 0, "d": 3, "bias": False, "via": "F"},
                # a bias that is not one value per output channel, input channels that do not match the weight
                {"N": 1, "Ci": 1, "Co": 2, "L": 3, "k": 2, "s": 1, "p": 0, "d": 1, "bias": True, "via": "F", "bshape": [1]},
                {"N": 1, "Ci": 1, "Co": 2, "L": 3, "k": 2, "s": 1, "p": 0, "d": 1, "bias": True, "via": "F", "bshape": [3]},
                {"N": 1, "Ci": 2, "Co": 1, "L": 3, "k": 2, "s": 1, "p": 0, "d": 1, "bias": False, "via": "F", "xci": 1}] + \
               [dict({"N": 1, "Ci": 1, "Co": 1, "L": 5, "k": 2, "s": 1, "p": 0, "d": 1, "bias": False, "via": v}, **bad)
                for v, bad in BAD_GEOMETRY]

    def inputs(self, args):
        ins = [Inp("x", (args["N"], args.get("xci", args["Ci"]), args["L"])), Inp("w", (args["Co"], args["Ci"], args["k"]), param=True)]
        if args["bias"]:
            ins.append(Inp("b", tuple(args.get("bshape", (args["Co"],))), param=True))
        return ins

    def forward(self, args, ts, extra):
        b = ts[2] if args["bias"] else None
        if args["via"] == "F":
            return NF().conv1d(ts[0], ts[1], b, args["s"], args["p"], args["d"])
        m = NN().Conv1d(args["Ci"], args["Co"], args["k"], args["s"], args["p"], args["d"], bias=args["bias"])
        m.weight = ts[1]
        if args["bias"]:
            m.bias = b
        return m(ts[0])

    def reference(self, args, xs, extra):
        x, w = xs[0], xs[1]
        k, s, d = args["k"], args["s"], args["d"]
        p = args["p"]
        if p == "same":
            # PyTorch 'same': total padding d*(k-1), split left = total//2, right = total - left
            tot = d * (k - 1)
            p = tot // 2
        elif p == "valid":
            p = 0
        # 'same' (stride 1): the output has the input's length; with an odd total the extra padded position is on the right
        Lout = args["L"] if args["p"] == "same" else out_len(args["L"], k, s, p, d)
        if Lout < 1:
            raise ValueError("empty output")
        o = objarr((args["N"], args["Co"], Lout))
        for n, co, l in np.ndindex(*o.shape):
            tot = 0
            for ci in range(args["Ci"]):
                for u, v in enumerate(win1d(x, n, ci, l, k, s, p, d)):
                    if v is not PAD:
                        tot = tot + v * w[co, ci, u]
            if args["bias"]:
                tot = tot + xs[2][co]
            o[n, co, l] = tot
        return o


@reg
class Conv2d(OpDef):
    name = "conv2d"
    props = ("C02", "C06", "C10", "C11")

    def may_reject(self, args):
        if args.get("p") != "same":
            return False
        k, d = pair(arg(args["k"])), pair(arg(args["d"]))
        return any((d[a] * (k[a] - 1)) % 2 == 1 for a in range(2))

    def configs(self, tier):
        out = []
        for idx, (hw, k, s, p, d) in enumerate(geo2d(tier)):
            how = "i" if idx % 2 else "t"
            base = {"H": hw[0], "W": hw[1], "k": L(k), "s": form(s, how), "p": form(p, how), "d": form(d, how)}
            out.append(dict(base, N=1, Ci=1, Co=1, bias=bool(idx % 3), via="F"))
            if idx % 4 == 0:
                out.append(dict(base, N=2, Ci=2, Co=2, bias=True, via="F"))
            if idx % 4 == 1:
                out.append(dict(base, N=1, Ci=2, Co=1, bias=False, via="M"))
        out.append({"H": 3, "W": 3, "k": [3, 3], "s": 1, "p": "same", "d": 1, "N": 1, "Ci": 1, "Co": 1, "bias": False, "via": "M"})
        out.append({"H": 3, "W": 4, "k": [1, 3], "s": 1, "p": "same", "d": 1, "N": 1, "Ci": 1, "Co": 1, "bias": False, "via": "M"})
        out.append({"H": 4, "W": 3, "k": [3, 1], "s": 1, "p": "same", "d": 1, "N": 1, "Ci": 1, "Co": 1, "bias": False, "via": "M"})
        out.append({"H": 3, "W": 2, "k": [2, 1], "s": 1, "p": "same", "d": [2, 1], "N": 1, "Ci": 1, "Co": 1, "bias": False, "via": "M"})   # even kernel, even dilation
        out.append({"H": 3, "W": 3, "k": [2, 3], "s": 1, "p": "same", "d": 1, "N": 1, "Ci": 1, "Co": 1, "bias": False, "via": "M"})   # odd total (H)
        out.append({"H": 3, "W": 3, "k": [2, 2], "s": 1, "p": "same", "d": 1, "N": 1, "Ci": 1, "Co": 1, "bias": False, "via": "M"})   # odd totals
        out.append({"H": 3, "W": 3, "k": [2, 2], "s": 1, "p": "valid", "d": 1, "N": 1, "Ci": 1, "Co": 1, "bias": True, "via": "M"})
        out.append({"H": 3, "W": 3, "k": 2, "s": 1, "p": 0, "d": 1, "N": 1, "Ci": 1, "Co": 1, "bias": True, "via": "M"})
        return out

    def illegal_configs(self, tier):
        return [{"H": 2, "W": 2, "k": [3, 1], "s": 1, "p": 0, "d": 1, "N": 1, "Ci": 1, "Co": 1, "bias": False, "via": "F"},
                {"H": 3, "W": 2, "k": [2, 2], "s": 1, "p": 0, "d": [1, 2], "N": 1, "Ci": 1, "Co": 1, "bias": False, "via": "F"},
                {"H": 2, "W": 2, "k": [2, 2], "s": 1, "p": 0, "d": 1, "N": 1, "Ci": 1, "Co": 2, "bias": True, "via": "F", "bshape": [1]},
                {"H": 2, "W": 2, "k": [2, 2], "s": 1, "p": 0, "d": 1, "N": 1, "Ci": 1, "Co": 2, "bias": True, "via": "F", "bshape": [2, 1]},
                {"H": 2, "W": 2, "k": [2, 2], "s": 1, "p": 0, "d": 1, "N": 1, "Ci": 2, "Co": 1, "bias": False, "via": "F", "xci": 1}] + \
               [dict({"H": 4, "W": 4, "k": [2, 2], "s": 1, "p": 0, "d": 1, "N": 1, "Ci": 1, "Co": 1, "bias": False, "via": v}, **bad)
                for v, bad in BAD_GEOMETRY] + \
               [{"H": 4, "W": 4, "k": [2, 2], "s": 1, "p": 0, "d": [1, 0], "N": 1, "Ci": 1, "Co": 1, "bias": False, "via": "F"}]

    def inputs(self, args):
        k = pair(arg(args["k"]))
        ins = [Inp("x", (args["N"], args.get("xci", args["Ci"]), args["H"], args["W"])),
               Inp("w", (args["Co"], args["Ci"], k[0], k[1]), param=True)]
        if args["bias"]:
            ins.append(Inp("b", tuple(args.get("bshape", (args["Co"],))), param=True))
        return ins

    def forward(self, args, ts, extra):
        b = ts[2] if args["bias"] else None
        if args["via"] == "F":
            return NF().conv2d(ts[0], ts[1], b, arg(args["s"]), arg(args["p"]), arg(args["d"]))
        m = NN().Conv2d(args["Ci"], args["Co"], arg(args["k"]), arg(args["s"]), arg(args["p"]), arg(args["d"]),
                        bias=args["bias"])
        m.weight = ts[1]
        if args["bias"]:
            m.bias = b
        return m(ts[0])

    def reference(self, args, xs, extra):
        x, w = xs[0], xs[1]
        k, s, d = pair(arg(args["k"])), pair(arg(args["s"])), pair(arg(args["d"]))
        p = args["p"]
        if p == "same":
            tot = [d[a] * (k[a] - 1) for a in range(2)]
            p = (tot[0] // 2, tot[1] // 2)
        elif p == "valid":
            p = (0, 0)
        else:
            p = pair(arg(p))
        if args["p"] == "same":     # stride 1: same extent as the input; an odd total puts the extra position at the bottom/right
            lH, lW = args["H"], args["W"]
        else:
            lH = out_len(args["H"], k[0], s[0], p[0], d[0])
            lW = out_len(args["W"], k[1], s[1], p[1], d[1])
        if lH < 1 or lW < 1:
            raise ValueError("empty output")
        o = objarr((args["N"], args["Co"], lH, lW))
        for n, co, i, j in np.ndindex(*o.shape):
            tot = 0
            for ci in range(args["Ci"]):
                ws = [w[co, ci, u, v] for u in range(k[0]) for v in range(k[1])]
                for wv, xv in zip(ws, win2d(x, n, ci, i, j, k, s, p, d)):
                    if xv is not PAD:
                        tot = tot + xv * wv
            if args["bias"]:
                tot = tot + xs[2][co]
            o[n, co, i, j] = tot
        return o


# ------------------------------------------------------------------------------------------ pooling
class _Pool1d(OpDef):
    props = ("C02", "C06", "C10", "C11")
    is_max = True
    fname = None
    mod = None

    def configs(self, tier):
        out = []
        for (Lin, k, s, p, d) in geo1d(tier):
            if self.is_max and p > k // 2:
                continue
            nwin = out_len(Lin, k, s, p, d)
            if self.is_max and k ** nwin > (32 if tier == "quick" else 256):
                continue
            out.append({"N": 1, "C": 1, "L": Lin, "k": k, "s": s, "p": p, "d": d, "via": "F"})
            if not self.is_max:
                out.append({"N": 2, "C": 2, "L": Lin, "k": k, "s": s, "p": p, "d": d, "via": "F"})
        out.append({"N": 1, "C": 2, "L": 4, "k": 2, "s": None, "p": 0, "d": 1, "via": "F"})
        out.append({"N": 2, "C": 2, "L": 2, "k": 2, "s": None, "p": 0, "d": 1, "via": "F"})     # arg-max offsets across batch and channel
        out.append({"N": 2, "C": 1, "L": 3, "k": 2, "s": 1, "p": 0, "d": 1, "via": "M"})
        out.append({"N": 1, "C": 1, "L": 4, "k": 2, "s": None, "p": 0, "d": 1, "via": "M"})
        out.append({"N": 1, "C": 1, "L": 4, "k": 2, "s": 1, "p": 1, "d": 1, "via": "M"})
        return out

    def illegal_configs(self, tier):
        out = [{"N": 1, "C": 1, "L": 2, "k": 3, "s": 1, "p": 0, "d": 1, "via": "F"}]
        out += [dict({"N": 1, "C": 1, "L": 5, "k": 2, "s": 1, "p": 0, "d": 1, "via": v}, **bad) for v, bad in BAD_GEOMETRY]
        if self.is_max:
            # more padding than half the kernel: some window lies entirely in the padding, so "padding never wins" cannot be
            # honoured (the value would be the pad value -inf); PyTorch: "pad should be at most half of kernel size"
            out += [{"N": 1, "C": 1, "L": 3, "k": 1, "s": 1, "p": 1, "d": 1, "via": "F"},
                    {"N": 1, "C": 1, "L": 3, "k": 2, "s": 1, "p": 2, "d": 1, "via": "M"},
                    {"N": 1, "C": 1, "L": 4, "k": 3, "s": 2, "p": 2, "d": 1, "via": "F"}]
        return out

    def inputs(self, args):
        return [Inp("x", (args["N"], args["C"], args["L"]))]

    def forward(self, args, ts, extra):
        if args["via"] == "M":
            return getattr(NN(), self.mod)(args["k"], args["s"], args["p"], args["d"])(ts[0])
        return getattr(NF(), self.fname)(ts[0], args["k"], args["s"], args["p"], args["d"])

    def reference(self, args, xs, extra):
        x = xs[0]
        k, p, d = args["k"], args["p"], args["d"]
        s = args["s"] if args["s"] is not None else k
        Lout = out_len(args["L"], k, s, p, d)
        if Lout < 1:
            raise ValueError("empty")
        o = objarr((args["N"], args["C"], Lout))
        for n, c, l in np.ndindex(*o.shape):
            win = win1d(x, n, c, l, k, s, p, d)
            if self.is_max:
                o[n, c, l] = pick([v for v in win if v is not PAD], True)     # padding never wins
            else:
                o[n, c, l] = ssum(v for v in win if v is not PAD) / k       # padded zeros are counted
        return o


@reg
class MaxPool1d(_Pool1d):
    name = "max_pool1d"
    fname = "max_pool1d"
    mod = "MaxPool1d"


@reg
class AvgPool1d(_Pool1d):
    name = "avg_pool1d"
    fname = "avg_pool1d"
    mod = "AvgPool1d"
    is_max = False


class _Pool2d(OpDef):
    props = ("C02", "C06", "C10", "C11")
    is_max = True
    fname = None
    mod = None

    def configs(self, tier):
        out = []
        for idx, (hw, k, s, p, d) in enumerate(geo2d(tier)):
            if self.is_max and (p[0] > k[0] // 2 or p[1] > k[1] // 2):
                continue
            nwin = out_len(hw[0], k[0], s[0], p[0], d[0]) * out_len(hw[1], k[1], s[1], p[1], d[1])
            if self.is_max and (k[0] * k[1]) ** nwin > (32 if tier == "quick" else 256):
                continue
            how = "i" if idx % 2 else "t"
            base = {"H": hw[0], "W": hw[1], "k": form(k, how), "s": form(s, how), "p": form(p, how), "d": form(d, how)}
            out.append(dict(base, N=1, C=1, via="F"))
            if not self.is_max and idx % 3 == 0:
                out.append(dict(base, N=2, C=2, via="F"))
        out.append({"H": 2, "W": 4, "k": 2, "s": None, "p": 0, "d": 1, "N": 1, "C": 1, "via": "F"})
        out.append({"H": 1, "W": 2, "k": [1, 2], "s": None, "p": 0, "d": 1, "N": 2, "C": 2, "via": "F"})     # batch and channel > 1
        out.append({"H": 2, "W": 2, "k": [2, 1], "s": 1, "p": 0, "d": 1, "N": 2, "C": 1, "via": "M"})
        out.append({"H": 2, "W": 4, "k": [1, 2], "s": None, "p": 0, "d": 1, "N": 1, "C": 1, "via": "M"})
        out.append({"H": 1, "W": 2, "k": [1, 2], "s": None, "p": 0, "d": 1, "N": 1, "C": 2, "via": "M"})
        out.append({"H": 2, "W": 2, "k": 2, "s": 2, "p": 1, "d": 1, "N": 1, "C": 1, "via": "M"})
        return out

    def illegal_configs(self, tier):
        out = [{"H": 2, "W": 2, "k": 3, "s": 1, "p": 0, "d": 1, "N": 1, "C": 1, "via": "F"}]
        out += [dict({"H": 4, "W": 4, "k": 2, "s": 1, "p": 0, "d": 1, "N": 1, "C": 1, "via": v}, **bad) for v, bad in BAD_GEOMETRY]
        if self.is_max:
            out += [{"H": 2, "W": 3, "k": 2, "s": 1, "p": [0, 2], "d": 1, "N": 1, "C": 1, "via": "F"},
                    {"H": 2, "W": 2, "k": [1, 2], "s": 1, "p": 1, "d": 1, "N": 1, "C": 1, "via": "M"}]
        return out

    def inputs(self, args):
        return [Inp("x", (args["N"], args["C"], args["H"], args["W"]))]

    def forward(self, args, ts, extra):
        a = [arg(args["k"]), arg(args["s"]), arg(args["p"]), arg(args["d"])]
        if args["via"] == "M":
            return getattr(NN(), self.mod)(*a)(ts[0])
        return getattr(NF(), self.fname)(ts[0], *a)

    def reference(self, args, xs, extra):
        x = xs[0]
        k, p, d = pair(arg(args["k"])), pair(arg(args["p"])), pair(arg(args["d"]))
        s = pair(arg(args["s"])) if args["s"] is not None else k
        lH = out_len(args["H"], k[0], s[0], p[0], d[0])
        lW = out_len(args["W"], k[1], s[1], p[1], d[1])
        if lH < 1 or lW < 1:
            raise ValueError("empty")
        o = objarr((args["N"], args["C"], lH, lW))
        for n, c, i, j in np.ndindex(*o.shape):
            win = win2d(x, n, c, i, j, k, s, p, d)
            if self.is_max:
                o[n, c, i, j] = pick([v for v in win if v is not PAD], True)
            else:
                o[n, c, i, j] = ssum(v for v in win if v is not PAD) / (k[0] * k[1])
        return o


@reg
class MaxPool2d(_Pool2d):
    name = "max_pool2d"
    fname = "max_pool2d"
    mod = "MaxPool2d"


@reg
class AvgPool2d(_Pool2d):
    name = "avg_pool2d"
    fname = "avg_pool2d"
    mod = "AvgPool2d"
    is_max = False


# ------------------------------------------------------------------------------------------ unfold / fold
@reg
class NNUnfold(OpDef):
    name = "nn_unfold"
    props = ("C02", "C06", "C10", "C11")

    def configs(self, tier):
        out = []
        for idx, (hw, k, s, p, d) in enumerate(geo2d(tier)):
            how = "i" if idx % 2 else "t"
            base = {"H": hw[0], "W": hw[1], "k": form(k, how), "s": form(s, how), "p": form(p, how), "d": form(d, how)}
            out.append(dict(base, N=1, C=2, via="F" if idx % 3 else "M"))
            if idx % 4 == 0:
                out.append(dict(base, N=2, C=1, via="F"))
            if idx % 5 == 0 and p != (0, 0):
                out.append(dict(base, N=1, C=1, via="F" if idx % 2 else "M", padv=True))     # the value the padding is filled with
            if idx % 6 == 0:
                out.append(dict(base, N=1, C=1, via="Mpos"))
        return out

    def illegal_configs(self, tier):
        return [{"H": 2, "W": 2, "k": [3, 1], "s": 1, "p": 0, "d": 1, "N": 1, "C": 1, "via": "F"}] + \
               [dict({"H": 4, "W": 4, "k": 2, "s": 1, "p": 0, "d": 1, "N": 1, "C": 1, "via": v}, **bad) for v, bad in BAD_GEOMETRY]

    def inputs(self, args):
        return [Inp("x", (args["N"], args["C"], args["H"], args["W"]))]

    def extra(self, args, env):
        if args.get("padv"):
            return {"padv": env.scalar("padv", lo=-3, hi=3, kind="data")}
        return {}

    def forward(self, args, ts, extra):
        kw = dict(kernel_size=arg(args["k"]), dilation=arg(args["d"]), stride=arg(args["s"]), padding=arg(args["p"]))
        if "padv" in extra:
            kw["pad_value"] = extra["padv"]
        if args["via"] == "Mpos":       # positional, in the order of the layer's own signature (kernel_size, stride, padding, dilation)
            return NN().Unfold(arg(args["k"]), arg(args["s"]), arg(args["p"]), arg(args["d"]))(ts[0])
        if args["via"] == "M":
            return NN().Unfold(**kw)(ts[0])
        return NF().unfold(ts[0], **kw)

    def reference(self, args, xs, extra):
        # torch.nn.Unfold: out[n, c*kH*kW + u*kW + v, i*lW + j] = x_pad[n, c, i*sH + u*dH, j*sW + v*dW]
        x = xs[0]
        k, s, p, d = (pair(arg(args[q])) for q in ("k", "s", "p", "d"))
        lH = out_len(args["H"], k[0], s[0], p[0], d[0])
        lW = out_len(args["W"], k[1], s[1], p[1], d[1])
        if lH < 1 or lW < 1:
            raise ValueError("empty")
        o = objarr((args["N"], args["C"] * k[0] * k[1], lH * lW))
        for n in range(args["N"]):
            for c in range(args["C"]):
                for i in range(lH):
                    for j in range(lW):
                        for q, v in enumerate(win2d(x, n, c, i, j, k, s, p, d)):
                            o[n, c * k[0] * k[1] + q, i * lW + j] = extra.get("padv", 0) if v is PAD else v
        return o


@reg
class NNFold(OpDef):
    name = "nn_fold"
    props = ("C02", "C06", "C10", "C11")

    def configs(self, tier):
        out = []
        for idx, (hw, k, s, p, d) in enumerate(geo2d(tier)):
            how = "i" if idx % 2 else "t"
            base = {"H": hw[0], "W": hw[1], "k": form(k, how), "s": form(s, how), "p": form(p, how), "d": form(d, how)}
            out.append(dict(base, N=1, C=1, via="F" if idx % 3 else "M"))
            if idx % 4 == 0:
                out.append(dict(base, N=2, C=2, via="F"))
            if idx % 6 == 0:
                out.append(dict(base, N=1, C=1, via="Mpos"))
        return out

    def _geom(self, args):
        k, s, p, d = (pair(arg(args[q])) for q in ("k", "s", "p", "d"))
        lH = out_len(args["H"], k[0], s[0], p[0], d[0])
        lW = out_len(args["W"], k[1], s[1], p[1], d[1])
        return k, s, p, d, lH, lW

    def illegal_configs(self, tier):
        # a number of blocks that does not match the geometry, a channel extent that is no multiple of kH*kW, an output too small
        g = {"H": 3, "W": 3, "k": 2, "s": 1, "p": 0, "d": 1, "N": 1, "C": 1, "via": "F"}
        return [dict(g, yshape=[1, 4, 5]), dict(g, yshape=[1, 3, 4]), dict(g, H=1, W=1, yshape=[1, 4, 1])]

    def inputs(self, args):
        if "yshape" in args:
            return [Inp("y", tuple(args["yshape"]))]
        k, s, p, d, lH, lW = self._geom(args)
        return [Inp("y", (args["N"], args["C"] * k[0] * k[1], max(lH * lW, 1)))]

    def forward(self, args, ts, extra):
        kw = dict(output_size=(args["H"], args["W"]), kernel_size=arg(args["k"]), dilation=arg(args["d"]),
                  stride=arg(args["s"]), padding=arg(args["p"]))
        if args["via"] == "Mpos":       # positional, in the order of the layer's own signature
            return NN().Fold((args["H"], args["W"]), arg(args["k"]), arg(args["s"]), arg(args["p"]), arg(args["d"]))(ts[0])
        if args["via"] == "M":
            return NN().Fold(**kw)(ts[0])
        return NF().fold(ts[0], **kw)

    def reference(self, args, xs, extra):
        y = xs[0]
        k, s, p, d, lH, lW = self._geom(args)
        o = objarr((args["N"], args["C"], args["H"], args["W"]))
        for idx in np.ndindex(*o.shape):
            o[idx] = 0
        for n in range(args["N"]):
            for c in range(args["C"]):
                for i in range(lH):
                    for j in range(lW):
                        for u in range(k[0]):
                            for v in range(k[1]):
                                a = i * s[0] + u * d[0] - p[0]
                                b = j * s[1] + v * d[1] - p[1]
                                if 0 <= a < args["H"] and 0 <= b < args["W"]:
                                    o[n, c, a, b] = o[n, c, a, b] + y[n, c * k[0] * k[1] + u * k[1] + v, i * lW + j]
        return o


# ------------------------------------------------------------------------------------------ batch norm
@reg
class BatchNormF(OpDef):
    """functional batch_norm in every (training, affine, running statistics) mode at arbitrary running values"""
    name = "batch_norm"
    props = ("C02", "C06", "C10", "C11")

    def configs(self, tier):
        out = []
        shapes = [(2, 2), (2, 1, 2)] if tier == "quick" else [(2, 2), (3, 1), (2, 1, 2), (2, 2, 1, 2), (3, 2)]
        for s in shapes:
            for training in (True, False):
                for affine in (True, False):
                    for track in (True, False):
                        out.append({"shape": L(s), "training": training, "affine": affine, "track": track})
        # exactly one running statistic: the other one is the batch statistic.  PyTorch refuses this in eval mode; if the
        # call is accepted, the result is the documented formula and the gradient is its VJP
        for only in ("rm", "rv"):
            for training in (False, True):
                out.append({"shape": [2, 2], "training": training, "affine": training, "track": True, "only": only})
        return out

    def may_reject(self, args):
        return bool(args.get("only"))

    def illegal_configs(self, tier):
        # parameters / statistics that are not of shape (C,): a (C,1) weight or a one-channel statistic would broadcast silently
        return [{"shape": [2, 2], "training": True, "affine": True, "track": False, "gshape": [2, 1]},
                {"shape": [2, 2, 2], "training": True, "affine": True, "track": False, "gshape": [1]},
                {"shape": [2, 2], "training": True, "affine": False, "track": True, "rshape": [1]},
                {"shape": [2, 1], "training": True, "affine": False, "track": True, "rshape": [2]},
                {"shape": [2, 2], "training": False, "affine": False, "track": True, "rshape": [1]},
                {"shape": [2, 2], "training": False, "affine": True, "track": True, "rshape": [2, 1]}]

    def inputs(self, args):
        c = args["shape"][1]
        ins = [Inp("x", args["shape"])]
        gs = tuple(args.get("gshape", (c,)))
        rs = tuple(args.get("rshape", (c,)))
        if args["affine"]:
            ins += [Inp("gamma", gs, param=True), Inp("beta", gs, param=True)]
        if args["track"]:
            if args.get("only") != "rv":
                ins += [Inp("rm", rs, differentiable=False)]
            if args.get("only") != "rm":
                ins += [Inp("rv", rs, differentiable=False, lo=0.1, hi=3)]
        return ins

    def documented_inplace(self, args):
        # running statistics are updated in training mode (documented)
        if not (args["training"] and args["track"]):
            return ()
        return (args["only"],) if args.get("only") else ("rm", "rv")

    def extra(self, args, env):
        return {"eps": env.scalar("eps", lo=0, hi=0.5, lo_strict=True, kind="data"),
                "mom": env.scalar("mom", lo=0, hi=1, lo_strict=True, hi_strict=True, kind="data")}

    def _split(self, args, ts):
        i = 1
        g = b = rm = rv = None
        if args["affine"]:
            g, b = ts[1], ts[2]
            i = 3
        if args["track"]:
            if args.get("only") == "rm":
                rm = ts[i]
            elif args.get("only") == "rv":
                rv = ts[i]
            else:
                rm, rv = ts[i], ts[i + 1]
        return g, b, rm, rv

    def forward(self, args, ts, extra):
        g, b, rm, rv = self._split(args, ts)
        return NF().batch_norm(ts[0], g, b, rm, rv, training=args["training"], momentum=extra["mom"], eps=extra["eps"])

    def reference(self, args, xs, extra):
        x = xs[0]
        g, b, rm, rv = self._split(args, xs)
        C = x.shape[1]
        use_batch = args["training"] or not args["track"]
        o = objarr(x.shape)
        for c in range(C):
            elems = [idx for idx in np.ndindex(*x.shape) if idx[1] == c]
            bm = ssum(x[i] for i in elems) / len(elems)
            if use_batch:
                m = bm
                var = ssum((x[i] - m) * (x[i] - m) for i in elems) / len(elems)    # biased
            else:
                m = rm[c] if rm is not None else bm
                var = rv[c] if rv is not None else ssum((x[i] - bm) * (x[i] - bm) for i in elems) / len(elems)
            sd = ssqrt(var + extra["eps"])
            for i in elems:
                v = (x[i] - m) / sd
                if g is not None:
                    v = v * g[c] + b[c]
                o[i] = v
        return o


@reg
class BatchNormLayer(OpDef):
    """the BatchNorm layers through their constructor arguments: one training forward, which moves the running statistics
    by the documented rule for the given momentum (a number in (0,1), the end points 0 = never moved and 1 = replaced, or
    None = cumulative average), then an eval forward whose output is the result"""
    name = "batch_norm_layer"
    props = ("C06", "C10")

    def configs(self, tier):
        out = []
        for s in ([(2, 2), (2, 1, 2)] if tier == "quick" else [(2, 2), (3, 1), (2, 1, 2), (2, 1, 1, 2)]):
            for mom in ("s", 0.0, 1.0, None):
                for affine in ((True, False) if mom in ("s", 0.0) else (False,)):
                    out.append({"shape": L(s), "momentum": mom, "affine": affine})
        return out

    def inputs(self, args):
        c = args["shape"][1]
        ins = [Inp("xt", args["shape"], differentiable=False), Inp("x", args["shape"]),
               Inp("rm", (c,), differentiable=False), Inp("rv", (c,), differentiable=False, lo=0.1, hi=3)]
        if args["affine"]:
            ins += [Inp("gamma", (c,), param=True), Inp("beta", (c,), param=True)]
        return ins

    def extra(self, args, env):
        ex = {"eps": env.scalar("eps", lo=0, hi=0.5, lo_strict=True, kind="data")}
        if args["momentum"] == "s":
            ex["mom"] = env.scalar("mom", lo=0, hi=1, lo_strict=True, hi_strict=True, kind="data")
        return ex

    def _mom(self, args, extra):
        return extra["mom"] if args["momentum"] == "s" else args["momentum"]

    def forward(self, args, ts, extra):
        shape = tuple(args["shape"])
        cls = NN().BatchNorm2d if len(shape) == 4 else NN().BatchNorm1d
        m = cls(shape[1], eps=extra["eps"], momentum=self._mom(args, extra), affine=args["affine"])
        m.running_mean, m.running_var = ts[2], ts[3]
        if args["affine"]:
            m.weight, m.bias = ts[4], ts[5]
        m(ts[0])
        m.eval()
        extra["module"] = m
        return m(ts[1])

    def reference(self, args, xs, extra):
        xt, x, rm, rv = xs[0], xs[1], xs[2], xs[3]
        C = x.shape[1]
        mom = self._mom(args, extra)
        f = 1.0 if mom is None else mom        # cumulative average after the first batch: factor 1/1
        o = objarr(x.shape)
        for c in range(C):
            elems = [idx for idx in np.ndindex(*x.shape) if idx[1] == c]
            n = len(elems)
            mu = ssum(xt[i] for i in elems) / n
            var = ssum((xt[i] - mu) * (xt[i] - mu) for i in elems) / n
            m2 = rm[c] * (1 - f) + mu * f
            v2 = rv[c] * (1 - f) + var * (n / (n - 1)) * f
            sd = ssqrt(v2 + extra["eps"])
            for i in elems:
                v = (x[i] - m2) / sd
                if args["affine"]:
                    v = v * xs[4][c] + xs[5][c]
                o[i] = v
        return o


@reg
class FlattenLayer(OpDef):
    """nn.Flatten(start_dim=1, end_dim=-1): the layer form, with its own defaults (the batch dimension is kept)"""
    name = "flatten_layer"
    props = ("C02", "C06", "C10", "C11")

    def configs(self, tier):
        out = []
        for s in ([(2, 3), (2, 3, 2)] if tier == "quick" else [(2, 3), (2, 3, 2), (2, 1, 2, 2)]):
            r = len(s)
            out.append({"a": L(s), "start": None, "end": None})          # the defaults
            for a in range(-r, r):
                for b in range(-r, r):
                    if norm_dim(a, r) <= norm_dim(b, r) and (tier != "quick" or (a + b) % 2 == 0):
                        out.append({"a": L(s), "start": a, "end": b})
            out.append({"a": L(s), "start": 0, "end": None})             # only one of the two given
        return out

    def illegal_configs(self, tier):
        return [{"a": [2, 3, 2], "start": 2, "end": 0}, {"a": [2, 3], "start": 0, "end": 2}]

    def inputs(self, args):
        return [Inp("a", args["a"])]

    def forward(self, args, ts, extra):
        kw = {}
        if args["start"] is not None:
            kw["start_dim"] = args["start"]
        if args["end"] is not None:
            kw["end_dim"] = args["end"]
        m = NN().Flatten(**kw)
        extra["module"] = m
        return m(ts[0])

    def reference(self, args, xs, extra):
        x = xs[0]
        r = x.ndim
        a = 1 if args["start"] is None else norm_dim(args["start"], r)
        b = r - 1 if args["end"] is None else norm_dim(args["end"], r)
        if a > b:
            raise ValueError("start after end")
        osh = x.shape[:a] + (int(np.prod(x.shape[a:b + 1], dtype=int)),) + x.shape[b + 1:]
        o = objarr(osh)
        flat = [x[idx] for idx in np.ndindex(*x.shape)]
        for k, idx in enumerate(np.ndindex(*osh)):
            o[idx] = flat[k]
        return o


# ------------------------------------------------------------------------------------------ dropout
@reg
class Dropout(OpDef):
    name = "dropout"
    props = ("C02", "C06", "C10", "C11")

    def configs(self, tier):
        out = []
        for s in ([(2,)] if tier == "quick" else [(3,), (2, 2)]):
            for p in (0.25, 0.5, 0.0):
                out.append({"a": L(s), "p": p, "training": True})
            out.append({"a": L(s), "p": 0.5, "training": False})
        out.append({"a": [2], "p": 0.25, "training": True, "np": True})     # p as a NumPy float64 scalar (np.linspace, a config array)
        return out

    def inputs(self, args):
        return [Inp("a", args["a"])]

    def forward(self, args, ts, extra):
        m = NN().Dropout(np.float64(args["p"]) if args.get("np") else args["p"])
        if not args["training"]:
            m.eval()
        extra["module"] = m
        return m(ts[0])

    def deterministic(self, args):
        return not args["training"] or args["p"] == 0.0     # a fresh mask per call is the documented behaviour

    def reference(self, args, xs, extra):
        return None
