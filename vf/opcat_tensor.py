"""Catalogue of the tensor operations of synapgrad's public API (functional.py + operator overloads of
tensor.py): argument grids, how each is invoked, its index-level reference and which arguments are legal.
Used by C01 (VJP), C05 (forward semantics), C10 (dtype/shape), C11 (no mutation), C14 (identities)."""
from __future__ import annotations

import itertools

import numpy as np

from .harness import OpDef, Inp, objarr, bshape, bidx, broadcastable, norm_dim
from .symnum.scalar import S
from .symnum import scalar as sc

REG = {}


def reg(cls):
    REG[cls.name] = cls()
    return cls


SH_Q = [(), (1,), (3,), (2, 1), (1, 3), (2, 3), (2, 2, 3)]     # the rank-3 shape: un-broadcasting over leading dims *and* unit dims
SH_T = SH_Q + [(2,), (1, 1), (3, 1), (2, 1, 3), (1, 2, 1), (1, 1, 1), (3, 2, 2), (2, 1, 1, 2), (1, 2, 1, 1, 2)]


def shapes(tier):
    return SH_Q if tier == "quick" else SH_T


def L(s):
    return [int(i) for i in s]


def sget(x, idx):
    """element of an array (object or float) as a Python-level scalar"""
    v = x[idx] if isinstance(x, np.ndarray) else x
    return v


def ssum(vals):
    tot = 0
    for v in vals:
        tot = tot + v
    return tot


# ------------------------------------------------------------------------------------------ elementwise binary
class _Binary(OpDef):
    pyop = None      # lambda a, b
    nz_b = False
    nz_a = False

    def configs(self, tier):
        out = []
        for a, b in itertools.product(shapes(tier), repeat=2):
            if broadcastable(a, b):
                out.append({"a": L(a), "b": L(b), "form": "tt"})
        for a in shapes(tier):
            out.append({"a": L(a), "form": "ts"})
            out.append({"a": L(a), "form": "st"})
        # integer tensors combined with a (symbolic) Python scalar: the result is what NumPy/PyTorch give
        # a *NumPy* scalar on either side (np.float64 is a Python float too): NumPy's scalar would take over `c op x` unless the
        # tensor class tells it not to; the result must still be a Tensor with the documented values
        out.append({"a": [3], "form": "st", "npscalar": "float64"})
        out.append({"a": [2, 1], "form": "ts", "npscalar": "float64"})
        out.append({"a": [3], "form": "st", "npscalar": "float32"})
        # a *concrete* Python float that neither float type represents exactly: with a float64 tensor it must act with double
        # precision (PyTorch: the scalar adopts the tensor's dtype), not be rounded to the default float32 first; with a float32
        # tensor it acts as its float32 rounding.  (Constants are exact rationals here, so a conversion through float32 shows.)
        if self.name != "div":      # division multiplies by the reciprocal, which is not exact even in double precision
            out.append({"a": [2], "form": "ts", "const": 0.1})
            out.append({"a": [2], "form": "st", "const": 0.1})
        out.append({"a": [3], "form": "ts", "int": [1, -2, 3]})
        out.append({"a": [3], "form": "st", "int": [2, 4, -1]})
        return out

    def illegal_configs(self, tier):
        return [{"a": [2, 3], "b": [2], "form": "tt"}, {"a": [3], "b": [2, 2], "form": "tt"}]

    def smooth_at_zero(self, args):
        # a zero in the first operand: fine everywhere except as the divisor of c / x
        return "int" not in args and "npscalar" not in args and "const" not in args and not (self.name == "div" and args["form"] == "st") \
            and int(np.prod(args["a"], dtype=int)) >= 1

    def inputs(self, args):
        f = args["form"]
        if f == "tt":
            return [Inp("a", args["a"], nonzero=self.nz_a), Inp("b", args["b"], nonzero=self.nz_b)]
        if "int" in args:
            return [Inp("a", args["a"], differentiable=False, concrete=np.array(args["int"], dtype=np.int64))]
        return [Inp("a", args["a"], nonzero=(self.nz_a if f == "ts" else self.nz_b))]

    def extra(self, args, env):
        if args["form"] == "tt":
            return {}
        if "npscalar" in args:
            return {"c": np.dtype(args["npscalar"]).type(0.5)}      # exactly representable, and so is its reciprocal
        if "const" in args:
            return {"c": float(args["const"])}
        nz = self.nz_b if args["form"] == "ts" else self.nz_a
        return {"c": env.scalar("c", lo=-3, hi=3, kind="data", nonzero=nz)}

    def forward(self, args, ts, extra):
        f = args["form"]
        if f == "tt":
            return self.pyop(ts[0], ts[1])
        if f == "ts":
            return self.pyop(ts[0], extra["c"])
        return self.pyop(extra["c"], ts[0])

    def reference(self, args, xs, extra):
        f = args["form"]
        if f == "tt":
            a, b = xs
        elif f == "ts":
            a, b = xs[0], extra["c"]
        else:
            a, b = extra["c"], xs[0]
        if "const" in args:
            # the scalar acts with the precision of the tensor it is combined with
            c = float(np.dtype(str(xs[0].dtype)).type(args["const"])) if str(xs[0].dtype) in ("float32", "float64") else float(args["const"])
            a, b = (a, c) if f == "ts" else (c, b)
        sa = a.shape if isinstance(a, np.ndarray) else ()
        sb = b.shape if isinstance(b, np.ndarray) else ()
        osh = bshape(sa, sb)
        o = objarr(osh)
        for idx in np.ndindex(*osh):
            x = a[bidx(idx, sa, len(osh))] if isinstance(a, np.ndarray) else a
            y = b[bidx(idx, sb, len(osh))] if isinstance(b, np.ndarray) else b
            x = int(x) if isinstance(x, np.integer) else x
            y = int(y) if isinstance(y, np.integer) else y
            o[idx] = self.pyop(x, y)
        return o


@reg
class Add(_Binary):
    name = "add"
    pyop = staticmethod(lambda a, b: a + b)


@reg
class Sub(_Binary):
    name = "sub"
    pyop = staticmethod(lambda a, b: a - b)


@reg
class Mul(_Binary):
    name = "mul"
    pyop = staticmethod(lambda a, b: a * b)


@reg
class Div(_Binary):
    name = "div"
    nz_b = True
    pyop = staticmethod(lambda a, b: a / b)


@reg
class Neg(OpDef):
    name = "neg"

    def configs(self, tier):
        return [{"a": L(s)} for s in shapes(tier)]

    def inputs(self, args):
        return [Inp("a", args["a"])]

    def forward(self, args, ts, extra):
        return -ts[0]

    def reference(self, args, xs, extra):
        o = objarr(xs[0].shape)
        for idx in np.ndindex(*xs[0].shape):
            o[idx] = 0 - xs[0][idx]
        return o


@reg
class FNeg(Neg):
    name = "F.neg"

    def forward(self, args, ts, extra):
        import synapgrad.functional as F
        return F.neg(ts[0])


# ------------------------------------------------------------------------------------------ matmul / addmm
def _matmul_ref(a, b):
    if a.ndim == 1 or b.ndim == 1:       # NumPy's vector rules: a missing dimension is added and removed again
        a2 = a.reshape((1,) + a.shape) if a.ndim == 1 else a
        b2 = b.reshape(b.shape + (1,)) if b.ndim == 1 else b
        o = _matmul_ref(a2, b2)
        if b.ndim == 1:
            o = o.reshape(o.shape[:-1])
        if a.ndim == 1:
            o = o.reshape(o.shape[:-2] + o.shape[-1:]) if b.ndim != 1 else o.reshape(o.shape[:-1])
        return o
    sa, sb = a.shape, b.shape
    batch = bshape(sa[:-2], sb[:-2])
    n, k, m = sa[-2], sa[-1], sb[-1]
    assert sb[-2] == k
    o = objarr(batch + (n, m))
    for bi in np.ndindex(*batch):
        ia = bidx(bi, sa[:-2], len(batch))
        ib = bidx(bi, sb[:-2], len(batch))
        for i in range(n):
            for j in range(m):
                o[bi + (i, j)] = ssum(a[ia + (i, t)] * b[ib + (t, j)] for t in range(k))
    return o


MM_Q = [((2, 3), (3, 2)), ((1, 2), (2, 1)), ((2, 1), (1, 3)), ((2, 2, 3), (3, 2)), ((2, 3), (2, 3, 1)),
        ((2, 1, 2), (1, 2, 2)), ((2, 2, 3), (3, 1))]
MM_T = MM_Q + [((2, 2, 2), (2, 2, 2)), ((1, 2, 2, 2), (2, 1, 2, 1)), ((2, 1, 1, 2), (2, 2, 1)), ((3, 1), (1, 1))]


@reg
class Matmul(OpDef):
    name = "matmul"

    def configs(self, tier):
        out = []
        for a, b in (MM_Q if tier == "quick" else MM_T):
            out.append({"a": L(a), "b": L(b), "form": "@"})
        out.append({"a": [2, 3], "b": [3, 2], "form": "F"})
        out.append({"a": [2, 3], "b": [3, 2], "form": "r@"})
        return out

    def illegal_configs(self, tier):
        return [{"a": [3], "b": [3, 2], "form": "@"}, {"a": [2, 3], "b": [3], "form": "@"},
                {"a": [2, 3], "b": [2, 3], "form": "@"}, {"a": [2, 2, 3], "b": [3, 3, 2], "form": "@"}]

    def inputs(self, args):
        return [Inp("a", args["a"]), Inp("b", args["b"])]

    def forward(self, args, ts, extra):
        import synapgrad.functional as F
        if args["form"] == "F":
            return F.matmul(ts[0], ts[1])
        if args["form"] == "r@":
            return ts[1].__rmatmul__(ts[0])
        return ts[0] @ ts[1]

    def reference(self, args, xs, extra):
        return _matmul_ref(xs[0], xs[1])


@reg
class Addmm(OpDef):
    name = "addmm"

    def configs(self, tier):
        base = [((2, 2), (2, 3), (3, 2)), ((2,), (2, 3), (3, 2)), ((1, 2), (1, 3), (3, 2)), ((), (2, 1), (1, 2)),
                ((2, 1), (2, 2), (2, 3))]
        # batched / vector matrix operands: "x1 + x2 @ x3" is defined for them; an implementation restricted to matrices may
        # reject them, but an accepted call must be differentiable like any other
        ext = [((2, 2), (2, 2, 3), (2, 3, 2)), ((2,), (2, 1, 3), (3, 2)), ((2,), (3,), (3, 2)), ((2, 2), (2, 3), (3,)),
               # batch dimensions that only one of the two matrix operands has, or has with extent 1
               ((2, 2), (2, 3), (2, 3, 2)), ((2,), (1, 2, 3), (2, 3, 2)), ((1, 2), (2, 1, 3), (1, 3, 2))]
        return [{"a": L(a), "b": L(b), "c": L(c)} for a, b, c in base] + \
               [{"a": L(a), "b": L(b), "c": L(c), "ext": True} for a, b, c in ext]

    def may_reject(self, args):
        return bool(args.get("ext"))

    def inputs(self, args):
        return [Inp("a", args["a"]), Inp("b", args["b"]), Inp("c", args["c"])]

    def forward(self, args, ts, extra):
        import synapgrad
        return synapgrad.addmm(ts[0], ts[1], ts[2])

    def reference(self, args, xs, extra):
        mm = _matmul_ref(xs[1], xs[2])
        a = xs[0]
        osh = bshape(a.shape, mm.shape)
        o = objarr(osh)
        for idx in np.ndindex(*osh):
            o[idx] = a[bidx(idx, a.shape, len(osh))] + mm[bidx(idx, mm.shape, len(osh))]
        return o


# ------------------------------------------------------------------------------------------ pow / rpow
EXPONENTS = [-2, -1, 0, 1, 2, 3, 0.5, -0.5, 1.5, 2.5]
BASES = [0.5, 2, float(np.e), 10]


@reg
class Pow(OpDef):
    name = "pow"

    def configs(self, tier):
        out = []
        for n in EXPONENTS:
            for s in ([(3,), (2, 2)] if tier == "quick" else [(), (3,), (2, 2), (1, 2, 1)]):
                out.append({"a": L(s), "n": n})
        out.append({"a": [2], "n": 2, "np": True})
        out.append({"a": [2], "n": 0.5, "np": True})
        return out

    def illegal_configs(self, tier):
        return [{"a": [2], "n": "tensor"}, {"a": [2], "n": "str"}]

    def smooth_at_zero(self, args):
        return isinstance(args["n"], (int, float)) and (args["n"] >= 1 or args["n"] == 0)

    def inputs(self, args):
        n = args["n"]
        if isinstance(n, (int, float)) and (n < 0 or n != int(n)):
            return [Inp("a", args["a"], lo=0, lo_strict=True)]
        return [Inp("a", args["a"])]

    def forward(self, args, ts, extra):
        n = args["n"]
        if n == "tensor":
            n = ts[0]
        elif n == "str":
            n = "2"
        elif args.get("np"):        # the exponent as a NumPy scalar (np.float64 is a Python float): the result keeps the tensor's dtype
            n = np.float64(n)
        return ts[0] ** n

    def reference(self, args, xs, extra):
        n = args["n"]
        o = objarr(xs[0].shape)
        for idx in np.ndindex(*xs[0].shape):
            x = xs[0][idx]
            if n == int(n):
                k = int(n)
                r = 1
                for _ in range(abs(k)):
                    r = r * x
                o[idx] = r if k >= 0 else 1 / r
            else:
                o[idx] = x ** n
        return o


@reg
class RPow(OpDef):
    name = "rpow"

    def configs(self, tier):
        out = []
        for b in BASES:
            for s in ([(3,)] if tier == "quick" else [(), (3,), (2, 2)]):
                out.append({"a": L(s), "base": b})
        out.append({"a": [2], "base": BASES[0], "np": True})
        out.append({"a": [2], "base": 0, "xr": True})          # 0 ** x is the constant 0 on x > 0 (extended-real run)
        return out

    def inputs(self, args):
        if args["base"] == 0:
            return [Inp("a", args["a"], lo=0, lo_strict=True)]
        return [Inp("a", args["a"])]

    def forward(self, args, ts, extra):
        return (np.float64(args["base"]) if args.get("np") else args["base"]) ** ts[0]

    def reference(self, args, xs, extra):
        o = objarr(xs[0].shape)
        if args["base"] == 0:
            for idx in np.ndindex(*xs[0].shape):
                o[idx] = xs[0][idx] * 0
            return o
        ln = float(np.log(args["base"]))
        for idx in np.ndindex(*xs[0].shape):
            x = xs[0][idx]
            o[idx] = (x * ln).exp() if isinstance(x, S) else np.exp(x * ln)
        return o


# ------------------------------------------------------------------------------------------ unary functions
class _Unary(OpDef):
    dom = {}
    meth = None

    def configs(self, tier):
        return [{"a": L(s)} for s in shapes(tier)]

    def inputs(self, args):
        return [Inp("a", args["a"], **self.dom)]

    def forward(self, args, ts, extra):
        return getattr(ts[0], self.meth)()

    def f(self, x):
        raise NotImplementedError

    def reference(self, args, xs, extra):
        o = objarr(xs[0].shape)
        for idx in np.ndindex(*xs[0].shape):
            o[idx] = self.f(xs[0][idx])
        return o


@reg
class Exp(_Unary):
    name = "exp"
    meth = "exp"

    def f(self, x):
        return x.exp() if isinstance(x, S) else np.exp(x)


@reg
class Log(_Unary):
    name = "log"
    meth = "log"
    dom = dict(lo=0, lo_strict=True)

    def configs(self, tier):
        # "precise": float64 operands in [1e-3, 1e-1], compared at double precision with the real guard constant in place
        # (log(x + 1e-12) is log(x) to float32 rounding only)
        return _Unary.configs(self, tier) + [{"a": [2], "precise": True}]

    def inputs(self, args):
        if args.get("precise"):
            return [Inp("a", args["a"], lo=0.001, hi=0.1)]
        return _Unary.inputs(self, args)

    def epsilon_zero(self):
        return True

    def f(self, x):
        return x.log() if isinstance(x, S) else np.log(x)


@reg
class Sqrt(_Unary):
    name = "sqrt"
    meth = "sqrt"
    dom = dict(lo=0, lo_strict=True)

    def f(self, x):
        return x.sqrt() if isinstance(x, S) else np.sqrt(x)


@reg
class Clone(_Unary):
    name = "clone"
    meth = "clone"

    def f(self, x):
        return x


# ------------------------------------------------------------------------------------------ reductions
def _dims_grid(r, tier, tuples=True):
    out = [None]
    out += list(range(-r, r))
    if tuples and r >= 2:
        for i, j in itertools.permutations(range(r), 2):
            for si, sj in itertools.product((0, 1), repeat=2):
                out.append([i - r * si, j - r * sj])
        if tier != "quick" and r >= 3:
            out.append([0, 1, 2])
            out.append([-1, 0, 1])
    return out


def _reduced_shape(shape, dims, keep):
    r = len(shape)
    if dims is None:
        red = set(range(r))
    elif isinstance(dims, (list, tuple)):
        red = [norm_dim(d, r) for d in dims]
        if len(set(red)) != len(red):
            raise ValueError("duplicate dims")
        red = set(red)
    else:
        red = {norm_dim(dims, r)}
    if keep:
        return tuple(1 if i in red else shape[i] for i in range(r)), red
    return tuple(shape[i] for i in range(r) if i not in red), red


def _reduce_ref(x, dims, keep, fn):
    osh, red = _reduced_shape(x.shape, dims, keep)
    o = objarr(osh)
    r = x.ndim
    for oidx in np.ndindex(*osh):
        group = []
        for idx in np.ndindex(*x.shape):
            if keep:
                proj = tuple(0 if i in red else idx[i] for i in range(r))
            else:
                proj = tuple(idx[i] for i in range(r) if i not in red)
            if proj == oidx:
                group.append(x[idx])
        o[oidx] = fn(group)
    return o


RED_SH_Q = [(), (3,), (2, 3), (1, 2)]
RED_SH_T = RED_SH_Q + [(2, 1, 3), (2, 2, 2), (1, 2, 1, 2), (2, 1, 1, 1, 2)]


class _Reduce(OpDef):
    tuples = True
    meth = None

    def configs(self, tier):
        out = []
        for s in (RED_SH_Q if tier == "quick" else RED_SH_T):
            for d in _dims_grid(len(s), tier, self.tuples):
                for keep in (False, True):
                    out.append({"a": L(s), "dim": d, "keep": keep})
        return out

    def illegal_configs(self, tier):
        return [{"a": [2, 3], "dim": 2, "keep": False}, {"a": [2, 3], "dim": -3, "keep": False},
                {"a": [2, 3], "dim": [0, 0], "keep": False}, {"a": [2, 3], "dim": [0, -2], "keep": True},
                {"a": [3], "dim": 1, "keep": True}]

    def inputs(self, args):
        return [Inp("a", args["a"])]

    def forward(self, args, ts, extra):
        d = args["dim"]
        d = tuple(d) if isinstance(d, list) else d
        return getattr(ts[0], self.meth)(d, args["keep"])

    def fn(self, group):
        raise NotImplementedError

    def reference(self, args, xs, extra):
        return _reduce_ref(xs[0], args["dim"], args["keep"], self.fn)


@reg
class Sum(_Reduce):
    name = "sum"
    meth = "sum"

    def fn(self, g):
        return ssum(g)


@reg
class Mean(_Reduce):
    name = "mean"
    meth = "mean"

    def fn(self, g):
        return ssum(g) / len(g)


def _argbest(group, is_max):
    best = group[0]
    for v in group[1:]:
        if (v > best) if is_max else (v < best):
            best = v
    return best


@reg
class Max(_Reduce):
    name = "max"
    meth = "max"
    tuples = False

    def fn(self, g):
        return _argbest(g, True)


@reg
class Min(_Reduce):
    name = "min"
    meth = "min"
    tuples = False

    def fn(self, g):
        return _argbest(g, False)


# ------------------------------------------------------------------------------------------ tag transport
def tags(shape):
    return np.arange(int(np.prod(shape, dtype=int))).reshape(shape)


def by_tags(x, tagarr):
    """reference output: element [i] is x.flat[tag[i]] (tag -1 = the constant 0)"""
    flat = x.reshape(-1)
    o = objarr(tagarr.shape)
    for idx in np.ndindex(*tagarr.shape):
        t = int(tagarr[idx])
        o[idx] = flat[t] if t >= 0 else 0
    return o


# getitem ------------------------------------------------------------------------------------------------
def _ix(s):
    return s


INDEX_Q = [
    ((3,), "0"), ((3,), "-1"), ((3,), "slice(0,2)"), ((3,), "slice(None,None,-1)"), ((3,), "slice(2,2)"),
    ((3,), "[0,0,1]"), ((3,), "np.array([2,0,2])"), ((3,), "np.array([True,False,True])"), ((3,), "None"),
    ((3,), "Ellipsis"),
    ((2, 3), "0"), ((2, 3), "(1,2)"), ((2, 3), "(slice(None),1)"), ((2, 3), "(slice(None),slice(0,3,2))"),
    ((2, 3), "(Ellipsis,-1)"), ((2, 3), "(None,1)"), ((2, 3), "([0,1,0],[2,2,0])"), ((2, 3), "([1,1],)"),
    ((2, 3), "(slice(None),[0,0])"), ((2, 3), "np.array([[True,False,True],[False,False,True]])"),
    ((2, 3), "(slice(None,None,-1),slice(None,None,-2))"), ((2, 3), "(-1,slice(1,None))"),
    # one element addressed by a non-negative and a negative index at once
    ((3,), "[0,2,-3]"), ((3,), "np.array([-1,2])"), ((2, 3), "(slice(None),[1,-2])"), ((2, 3), "([0,-2],[2,-1])"),
    ((2, 3), "([1,-1,1],)"),
]
INDEX_T = INDEX_Q + [
    ((2, 2, 3), "(0,Ellipsis,1)"), ((2, 2, 3), "(slice(None),None,1,slice(None,None,2))"),
    ((2, 2, 3), "([0,0],slice(None),[1,1])"), ((2, 2, 3), "(1,[0,0,1])"), ((2, 2, 3), "(Ellipsis,None)"),
    ((2, 2, 3), "(np.array([True,True]),0)"), ((2, 3), "(np.array([[0,0],[1,1]]),np.array([[0,1],[0,1]]))"),
    ((2, 3), "(np.array([1,1,1]),np.array([2,2,2]))"), ((), "Ellipsis"), ((), "None"), ((1,), "0"),
]


@reg
class GetItem(OpDef):
    name = "getitem"

    def configs(self, tier):
        return [{"a": L(s), "key": k} for s, k in (INDEX_Q if tier == "quick" else INDEX_T)]

    def illegal_configs(self, tier):
        return [{"a": [3], "key": "3"}, {"a": [3], "key": "(0,0)"}, {"a": [2, 3], "key": "(0,3)"},
                {"a": [3], "key": "[0,5]"}]

    def key(self, args):
        return eval(args["key"], {"np": np, "slice": slice, "Ellipsis": Ellipsis, "None": None, "True": True,
                                  "False": False})

    def inputs(self, args):
        return [Inp("a", args["a"])]

    def forward(self, args, ts, extra):
        return ts[0][self.key(args)]

    def reference(self, args, xs, extra):
        t = tags(xs[0].shape)[self.key(args)]
        return by_tags(xs[0], np.asarray(t))


# concat / stack / unbind ------------------------------------------------------------------------------------
CAT_Q = [([(2,), (3,)], 0), ([(2,), (3,)], -1), ([(2, 3), (1, 3)], 0), ([(2, 1), (2, 2), (2, 1)], 1),
         ([(2, 1), (2, 2)], -1), ([(1, 2), (1, 2)], -2)]
CAT_T = CAT_Q + [([(2, 1, 2), (2, 2, 2)], 1), ([(2, 1, 2), (2, 1, 1)], -1), ([(3,)], 0), ([(1, 2, 2), (2, 2, 2)], -3)]


@reg
class Concat(OpDef):
    name = "concat"

    def configs(self, tier):
        return [{"shapes": [L(s) for s in ss], "dim": d} for ss, d in (CAT_Q if tier == "quick" else CAT_T)]

    def illegal_configs(self, tier):
        return [{"shapes": [[2], [3]], "dim": 1}, {"shapes": [[2, 3], [2, 2]], "dim": 0},
                {"shapes": [[2, 3], [2, 3]], "dim": -3}]

    def inputs(self, args):
        return [Inp("x%d" % i, s) for i, s in enumerate(args["shapes"])]

    def forward(self, args, ts, extra):
        import synapgrad
        return synapgrad.concat(list(ts), args["dim"])

    def reference(self, args, xs, extra):
        r = xs[0].ndim
        d = norm_dim(args["dim"], r)
        for x in xs:
            if x.ndim != r or any(x.shape[i] != xs[0].shape[i] for i in range(r) if i != d):
                raise ValueError("shapes")
        osh = list(xs[0].shape)
        osh[d] = sum(x.shape[d] for x in xs)
        o = objarr(tuple(osh))
        off = 0
        for x in xs:
            for idx in np.ndindex(*x.shape):
                j = list(idx)
                j[d] += off
                o[tuple(j)] = x[idx]
            off += x.shape[d]
        return o


STACK_Q = [((3,), 2, 0), ((3,), 2, 1), ((3,), 3, -1), ((2, 2), 2, 0), ((2, 2), 2, 1), ((2, 2), 2, -1),
           ((2, 2), 2, -3), ((), 3, 0)]
STACK_T = STACK_Q + [((2, 1, 2), 2, 2), ((2, 1, 2), 2, -2), ((1,), 1, 0), ((2, 3), 3, 2)]


@reg
class Stack(OpDef):
    name = "stack"

    def configs(self, tier):
        return [{"shape": L(s), "n": n, "dim": d} for s, n, d in (STACK_Q if tier == "quick" else STACK_T)]

    def illegal_configs(self, tier):
        return [{"shape": [3], "n": 2, "dim": 2}, {"shape": [3], "n": 2, "dim": -3}]

    def inputs(self, args):
        return [Inp("x%d" % i, args["shape"]) for i in range(args["n"])]

    def forward(self, args, ts, extra):
        import synapgrad
        return synapgrad.stack(list(ts), args["dim"])

    def reference(self, args, xs, extra):
        r = xs[0].ndim + 1
        d = norm_dim(args["dim"], r)
        osh = list(xs[0].shape)
        osh.insert(d, len(xs))
        o = objarr(tuple(osh))
        for k, x in enumerate(xs):
            for idx in np.ndindex(*x.shape):
                j = list(idx)
                j.insert(d, k)
                o[tuple(j)] = x[idx]
        return o


@reg
class Unbind(OpDef):
    name = "unbind"

    def configs(self, tier):
        out = []
        for s in ([(3,), (2, 3)] if tier == "quick" else [(3,), (2, 3), (1, 2), (2, 1, 2)]):
            for d in range(-len(s), len(s)):
                out.append({"a": L(s), "dim": d})
        return out

    def illegal_configs(self, tier):
        return [{"a": [2, 3], "dim": 2}, {"a": [2, 3], "dim": -3}]

    def inputs(self, args):
        return [Inp("a", args["a"])]

    def forward(self, args, ts, extra):
        import synapgrad
        return synapgrad.unbind(ts[0], args["dim"])

    def reference(self, args, xs, extra):
        x = xs[0]
        d = norm_dim(args["dim"], x.ndim)
        outs = []
        for k in range(x.shape[d]):
            osh = tuple(e for i, e in enumerate(x.shape) if i != d)
            o = objarr(osh)
            for idx in np.ndindex(*osh):
                j = list(idx)
                j.insert(d, k)
                o[idx] = x[tuple(j)]
            outs.append(o)
        return outs


# squeeze / unsqueeze / reshape ----------------------------------------------------------------------------
@reg
class Squeeze(OpDef):
    name = "squeeze"

    def configs(self, tier):
        out = []
        for s in ([(1, 3), (2, 1), (1, 1), (3,), ()] if tier == "quick" else
                  [(1, 3), (2, 1), (1, 1), (3,), (), (1, 2, 1), (2, 1, 3), (1,)]):
            out.append({"a": L(s), "dim": None})
            for d in range(-len(s), len(s)):
                out.append({"a": L(s), "dim": d})
            if len(s) >= 2:
                out.append({"a": L(s), "dim": [0, 1]})
                out.append({"a": L(s), "dim": [-1, 0]})
        return out

    def illegal_configs(self, tier):
        return [{"a": [1, 3], "dim": 2}, {"a": [1, 3], "dim": -3}]

    def inputs(self, args):
        return [Inp("a", args["a"])]

    def forward(self, args, ts, extra):
        d = args["dim"]
        return ts[0].squeeze(tuple(d) if isinstance(d, list) else d)

    def reference(self, args, xs, extra):
        # PyTorch: squeeze(dim) removes dim only if its extent is 1 (no-op otherwise); tuple = each listed dim
        x = xs[0]
        d = args["dim"]
        r = x.ndim
        if d is None:
            rm = {i for i in range(r) if x.shape[i] == 1}
        else:
            ds = d if isinstance(d, list) else [d]
            rm = {norm_dim(i, r) for i in ds if r > 0}
            rm = {i for i in rm if x.shape[i] == 1}
        osh = tuple(e for i, e in enumerate(x.shape) if i not in rm)
        return by_tags(x, tags(x.shape).reshape(osh))


@reg
class Unsqueeze(OpDef):
    name = "unsqueeze"

    def configs(self, tier):
        out = []
        for s in ([(3,), (2, 3), ()] if tier == "quick" else [(3,), (2, 3), (), (2, 1, 2)]):
            for d in range(-len(s) - 1, len(s) + 1):
                out.append({"a": L(s), "dim": d})
        out.append({"a": [3], "dim": [0, 2]})
        out.append({"a": [2, 3], "dim": [0, -1]})
        return out

    def illegal_configs(self, tier):
        return [{"a": [3], "dim": 2}, {"a": [3], "dim": -3}, {"a": [2, 3], "dim": 3}]

    def inputs(self, args):
        return [Inp("a", args["a"])]

    def forward(self, args, ts, extra):
        d = args["dim"]
        return ts[0].unsqueeze(tuple(d) if isinstance(d, list) else d)

    def reference(self, args, xs, extra):
        x = xs[0]
        d = args["dim"]
        ds = d if isinstance(d, list) else [d]
        r = x.ndim + len(ds)
        pos = sorted(norm_dim(i, r) for i in ds)
        if len(set(pos)) != len(pos):
            raise ValueError("dup")
        osh = list(x.shape)
        for p in pos:
            osh.insert(p, 1)
        return by_tags(x, tags(x.shape).reshape(tuple(osh)))


RESH_Q = [((2, 3), (3, 2)), ((2, 3), (6,)), ((2, 3), (-1,)), ((2, 3), (1, -1, 2)), ((6,), (2, 3)), ((), (1,)),
          ((1,), ()), ((2, 3), (3, -1))]


@reg
class Reshape(OpDef):
    name = "reshape"

    def configs(self, tier):
        extra = [] if tier == "quick" else [((2, 2, 3), (4, 3)), ((2, 2, 3), (-1, 6)), ((2, 2, 3), (3, 2, 2))]
        return [{"a": L(a), "shape": L(s)} for a, s in RESH_Q + extra]

    def illegal_configs(self, tier):
        return [{"a": [2, 3], "shape": [4]}, {"a": [2, 3], "shape": [-1, -1]}, {"a": [2, 3], "shape": [-1, 4]}]

    def inputs(self, args):
        return [Inp("a", args["a"])]

    def forward(self, args, ts, extra):
        return ts[0].reshape(tuple(args["shape"]))

    def reference(self, args, xs, extra):
        x = xs[0]
        sh = list(args["shape"])
        n = x.size
        if sh.count(-1) > 1:
            raise ValueError("two -1")
        if -1 in sh:
            rest = int(np.prod([e for e in sh if e != -1], dtype=int))
            if rest == 0 or n % rest:
                raise ValueError("bad")
            sh[sh.index(-1)] = n // rest
        if int(np.prod(sh, dtype=int)) != n:
            raise ValueError("bad")
        o = objarr(tuple(sh))
        flat = x.reshape(-1)
        for k, idx in enumerate(np.ndindex(*sh)):
            o[idx] = flat[k]
        return o


# movedim / transpose / flatten / unfold --------------------------------------------------------------------
def _perm_ref(x, perm):
    """out[idx] = x[idx permuted back]: out axis k is input axis perm[k]"""
    osh = tuple(x.shape[p] for p in perm)
    o = objarr(osh)
    for idx in np.ndindex(*osh):
        src = [0] * x.ndim
        for k, p in enumerate(perm):
            src[p] = idx[k]
        o[idx] = x[tuple(src)]
    return o


def _movedim_perm(r, src, dst):
    src = [src] if isinstance(src, int) else list(src)
    dst = [dst] if isinstance(dst, int) else list(dst)
    if len(src) != len(dst):
        raise ValueError("len")
    src = [norm_dim(s, r) for s in src]
    dst = [norm_dim(d, r) for d in dst]
    if len(set(src)) != len(src) or len(set(dst)) != len(dst):
        raise ValueError("repeated")
    perm = [None] * r
    for s, d in zip(src, dst):
        perm[d] = s
    rest = [i for i in range(r) if i not in src]
    it = iter(rest)
    for k in range(r):
        if perm[k] is None:
            perm[k] = next(it)
    return perm


PERM_SH_Q = [(2, 3), (2, 3, 4)]
PERM_SH_T = [(2, 3), (2, 3, 4), (1, 2, 3, 2), (3,), (2, 1, 2, 1, 2)]


@reg
class Movedim(OpDef):
    name = "movedim"

    def configs(self, tier):
        out = []
        for s in (PERM_SH_Q if tier == "quick" else PERM_SH_T):
            r = len(s)
            for a in range(-r, r):
                for b in range(-r, r):
                    if tier == "quick" and r == 3 and (a < 0) != (b < 0) and (a + b) % 2:
                        continue
                    out.append({"a": L(s), "src": a, "dst": b, "m": "movedim"})
        out.append({"a": [2, 3, 4], "src": [0, 1], "dst": [2, 0], "m": "movedim"})
        out.append({"a": [2, 3, 4], "src": [0, -1], "dst": [-1, 1], "m": "movedim"})
        out.append({"a": [2, 3, 4], "src": 0, "dst": 2, "m": "moveaxis"})
        return out

    def illegal_configs(self, tier):
        return [{"a": [2, 3], "src": 2, "dst": 0, "m": "movedim"}, {"a": [2, 3], "src": 0, "dst": -3, "m": "movedim"},
                {"a": [2, 3, 4], "src": [0, 0], "dst": [1, 2], "m": "movedim"},
                {"a": [2, 3, 4], "src": [0, 1], "dst": [1], "m": "movedim"}]

    def inputs(self, args):
        return [Inp("a", args["a"])]

    def forward(self, args, ts, extra):
        s, d = args["src"], args["dst"]
        s = tuple(s) if isinstance(s, list) else s
        d = tuple(d) if isinstance(d, list) else d
        return getattr(ts[0], args["m"])(s, d)

    def reference(self, args, xs, extra):
        return _perm_ref(xs[0], _movedim_perm(xs[0].ndim, args["src"], args["dst"]))


@reg
class Transpose(OpDef):
    name = "transpose"

    def configs(self, tier):
        out = []
        for s in (PERM_SH_Q if tier == "quick" else PERM_SH_T):
            r = len(s)
            for a in range(-r, r):
                for b in range(-r, r):
                    out.append({"a": L(s), "d0": a, "d1": b})
        return out

    def illegal_configs(self, tier):
        return [{"a": [2, 3], "d0": 2, "d1": 0}, {"a": [2, 3], "d0": 0, "d1": -3}]

    def inputs(self, args):
        return [Inp("a", args["a"])]

    def forward(self, args, ts, extra):
        return ts[0].transpose(args["d0"], args["d1"])

    def reference(self, args, xs, extra):
        r = xs[0].ndim
        a, b = norm_dim(args["d0"], r), norm_dim(args["d1"], r)
        perm = list(range(r))
        perm[a], perm[b] = perm[b], perm[a]
        return _perm_ref(xs[0], perm)


@reg
class Flatten(OpDef):
    name = "flatten"

    def configs(self, tier):
        out = []
        for s in ([(2, 3), (2, 3, 2)] if tier == "quick" else [(2, 3), (2, 3, 2), (2, 1, 2, 2), (3,)]):
            r = len(s)
            for a in range(-r, r):
                for b in range(-r, r):
                    if norm_dim(a, r) <= norm_dim(b, r):
                        out.append({"a": L(s), "start": a, "end": b})
        out.append({"a": [2, 3, 2], "start": None, "end": None})
        # a 0-d tensor is treated as having one dimension: the result has shape (1,) (torch.flatten / ndarray.flatten)
        for a, b in ((None, None), (0, 0), (-1, -1), (0, -1), (-1, 0)):
            out.append({"a": [], "start": a, "end": b})
        return out

    def illegal_configs(self, tier):
        return [{"a": [], "start": 1, "end": 1}, {"a": [], "start": 0, "end": -2}, {"a": [2, 3, 2], "start": 2, "end": 0}, {"a": [2, 3, 2], "start": -1, "end": 1},
                {"a": [2, 3], "start": 0, "end": 2}, {"a": [2, 3], "start": -3, "end": 1}]

    def inputs(self, args):
        return [Inp("a", args["a"])]

    def forward(self, args, ts, extra):
        if args["start"] is None:
            return ts[0].flatten()
        return ts[0].flatten(args["start"], args["end"])

    def reference(self, args, xs, extra):
        x = xs[0]
        r = x.ndim
        if r == 0:
            return by_tags(x, tags(x.shape).reshape((1,)))
        a = 0 if args["start"] is None else norm_dim(args["start"], r)
        b = r - 1 if args["end"] is None else norm_dim(args["end"], r)
        if a > b:
            raise ValueError("start after end")
        osh = x.shape[:a] + (int(np.prod(x.shape[a:b + 1], dtype=int)),) + x.shape[b + 1:]
        return by_tags(x, tags(x.shape).reshape(osh))


@reg
class Unfold(OpDef):
    name = "unfold"

    def configs(self, tier):
        out = []
        for s in ([(4,), (2, 4)] if tier == "quick" else [(4,), (2, 4), (3, 2), (2, 3, 2)]):
            r = len(s)
            for d in range(-r, r):
                ext = s[norm_dim(d, r)]
                for size in range(1, ext + 1):
                    for step in (1, 2, 3):
                        if tier == "quick" and step == 3 and size > 2:
                            continue
                        out.append({"a": L(s), "dim": d, "size": size, "step": step})
        return out

    def illegal_configs(self, tier):
        return [{"a": [4], "dim": 0, "size": 5, "step": 1}, {"a": [4], "dim": 1, "size": 2, "step": 1},
                {"a": [4], "dim": 0, "size": 0, "step": 1}, {"a": [4], "dim": 0, "size": 2, "step": 0},
                {"a": [2, 4], "dim": -3, "size": 1, "step": 1}]

    def inputs(self, args):
        return [Inp("a", args["a"])]

    def forward(self, args, ts, extra):
        return ts[0].unfold(args["dim"], args["size"], args["step"])

    def reference(self, args, xs, extra):
        # torch.Tensor.unfold: windows along `dim` replace it, the window elements go to a new last dim
        x = xs[0]
        r = x.ndim
        d = norm_dim(args["dim"], r)
        size, step = args["size"], args["step"]
        if size < 1 or step < 1 or size > x.shape[d]:
            raise ValueError("bad")
        nwin = (x.shape[d] - size) // step + 1
        osh = x.shape[:d] + (nwin,) + x.shape[d + 1:] + (size,)
        o = objarr(osh)
        for idx in np.ndindex(*osh):
            src = list(idx[:-1])
            src[d] = idx[d] * step + idx[-1]
            o[idx] = x[tuple(src)]
        return o
