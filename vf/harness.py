"""Generic cases over an op catalogue: one OpDef describes an operation of the public API (inputs, how to
call it, its definitional reference, which argument values are legal); OpCase turns (property, op, args,
variant) into an engine case."""
from __future__ import annotations

import json

import numpy as np

from . import common
from .symnum import engine as E
from .symnum.engine import exception_origin
from .symnum import scalar as sc
from .symnum import array as ar
from .symnum.scalar import S


def T():
    return common.tensor_mod().Tensor


def elem_names(prefix, shape):
    return [prefix + "".join("_%d" % i for i in idx) for idx in np.ndindex(*shape)]


_MISSING = object()


def gradof(t):
    """the gradient array a tensor holds (None if none).  The pinned tree keeps it in ``_grad``; if that private name is
    gone the public ``.grad`` property is used (its warning about non-leaf tensors is swallowed)."""
    g = getattr(t, "_grad", _MISSING)
    if g is not _MISSING:
        return g
    import io
    import contextlib
    with contextlib.redirect_stdout(io.StringIO()):
        gt = t.grad
    return None if gt is None else gt.data


_CHILDREN_ATTR = []


def children_of(t):
    """the operands an operation recorded on its result.  The pinned tree keeps them in ``_children``; if that private name is
    gone, the attribute is found once by behaviour: on y = x * 2 it is the one holding a tuple/list that contains x."""
    c = getattr(t, "_children", _MISSING)
    if c is not _MISSING:
        return c
    if not _CHILDREN_ATTR:
        Tn = T()
        x = Tn(np.ones((1,), dtype=np.float32), requires_grad=True)
        y = x * 2.0
        names = list(getattr(y, "__dict__", {})) + [n for k in type(y).__mro__ for n in getattr(k, "__slots__", ())]
        found = []
        for n in names:
            try:
                v = getattr(y, n)
            except Exception:  # noqa: BLE001
                continue
            if isinstance(v, (tuple, list)) and any(e is x for e in v):
                found.append(n)
        if len(found) != 1:
            raise sc.Unsupported("graph introspection: cannot tell where this tree records the operands of an operation")
        _CHILDREN_ATTR.append(found[0])
    return getattr(t, _CHILDREN_ATTR[0])


def set_grad(t, arr):
    """put a gradient array on a tensor (harness pre-states: stale buffers, arbitrary accumulated values)"""
    if hasattr(t, "_grad"):
        t._grad = arr
    elif arr is None:
        t.grad = None
    else:
        t.grad = T()(arr)



class Inp:
    """one tensor input of an op"""

    def __init__(self, label, shape, differentiable=True, param=False, concrete=None, **dom):
        self.concrete = concrete    # a fixed (integer) array instead of symbolic data
        self.label = label
        self.shape = tuple(shape)
        self.differentiable = differentiable
        self.param = param          # wrap into nn.Parameter (layer weights)
        self.dom = dom


class OpDef:
    name = "?"
    props = ("C01", "C05", "C10", "C11")

    def configs(self, tier):
        return []

    def illegal_configs(self, tier):
        return []

    def inputs(self, args):
        raise NotImplementedError

    def extra(self, args, env):
        """non-tensor symbolic operands (Python scalars ...) -> dict"""
        return {}

    def forward(self, args, ts, extra):
        raise NotImplementedError

    def reference(self, args, xs, extra):
        """index-level definition on arrays of scalars -> array or list of arrays (None: no reference)"""
        return None

    def epsilon_zero(self):
        """ops whose kernels add the guard constant: exact identities are checked with epsilon := 0"""
        return False

    def exp_scale(self, args):
        return 1

    def documented_inplace(self, args):
        """labels of inputs the op is documented to update in place (C11 whitelist)"""
        return ()

    def deterministic(self, args):
        return True

    def smooth_at_zero(self, args):
        """True if the operation is differentiable with a *finite* derivative where an entry of its first operand is exactly 0
        (so a gradient that is nan / inf there can only come from the way backward computes it, e.g. 0/0)"""
        return False

    def may_reject(self, args):
        """configurations the documentation allows in principle but that an implementation may be unable to honour (e.g.
        'same' padding that needs an asymmetric split): either the documented result or an exception is acceptable, a
        different shape or value is not"""
        return False


def as_list(o):
    return list(o) if isinstance(o, (tuple, list)) else [o]


def objarr(shape):
    return np.empty(shape, dtype=object)


def sig_of(op, args, variant):
    return "%s%s%s" % (op, json.dumps(args, separators=(",", ":"), sort_keys=True),
                       ("|" + json.dumps(variant, separators=(",", ":"), sort_keys=True)) if variant else "")


class EpsZero:
    """context: cpu_ops.epsilon := 0 (DESIGN 3.6) for exact-identity obligations"""

    def __init__(self, on):
        self.on = on

    def __enter__(self):
        if self.on:
            import synapgrad.cpu_ops as C
            self.prev = C.epsilon
            C.epsilon = 0
        return self

    def __exit__(self, *a):
        if self.on:
            import synapgrad.cpu_ops as C
            C.epsilon = self.prev


class OpCase:
    """variant keys: req (list of 0/1 per input), dtype ('float32'|'float64'), gdtype, illegal (bool)"""

    def __init__(self, prop, opdef, args, variant=None):
        self.prop = prop
        self.opdef = opdef
        self.args = args
        self.variant = variant or {}
        self.sig = sig_of(opdef.name, args, self.variant)
        # float64 operands with exactly representable expectations: numeric screens at double precision
        self.tol = 1e-12 if self.variant.get("precise") else None

    # ------------------------------------------------------------------ building blocks
    def _make_inputs(self, env, req_default):
        Tn = T()
        specs = self.opdef.inputs(self.args)
        req = self.variant.get("req")
        dtype = np.dtype(self.variant.get("dtype", "float32"))
        dtypes = self.variant.get("dtypes")
        ts, arrays, names = [], [], {}
        for i, sp in enumerate(specs):
            dt = np.dtype(dtypes[i]) if dtypes else dtype
            if sp.concrete is not None:
                a = np.array(sp.concrete)
                ts.append(Tn(a))
                arrays.append(a)
                names[sp.label] = []
                continue
            a = env.arr(sp.label, sp.shape, dt, **sp.dom)
            if self.variant.get("zero_first") and i == 0 and int(np.prod(sp.shape, dtype=int)) >= 1:
                # the first entry of the first operand is exactly 0 (a constant, not a value the solver may move)
                if env.sym:
                    raw = a.view(np.ndarray)
                    raw[(0,) * raw.ndim] = sc.S(sc.const(0), np.dtype(dt))
                else:
                    a[(0,) * a.ndim] = 0.0
            layout = self.variant.get("layout")
            if layout and i == 0 and len(sp.shape) >= 2:
                a = relayout(a, layout)
            names[sp.label] = elem_names(sp.label, sp.shape)
            r = bool(req[i]) if req is not None else (req_default and sp.differentiable)
            t = Tn(a, requires_grad=r and sp.differentiable)
            if sp.param:
                from synapgrad import nn
                t = nn.Parameter(t)
            ts.append(t)
            arrays.append(a)
        return specs, ts, arrays, names

    def run(self, env):
        with EpsZero(self.opdef.epsilon_zero() and not self.args.get("values") and not self.variant.get("precise") and self.prop in ("C01", "C02", "C14", "C05", "C06")):
            return getattr(self, "run_" + self.prop)(env)

    # ------------------------------------------------------------------ VJP (C01 / C02)
    def run_zero(self, env):
        """exact zeros: the point x_0 = 0 has measure zero for the solver, but real data is full of exact zeros (after relu,
        padding, masks).  Run in the extended-real mode (0/0 = nan, c/0 = inf propagate symbolically) with a constant 0
        entry and require finite gradients wherever the operation itself is smooth with a finite derivative there."""
        from .symnum import xr as XRM
        out = E.Outcome()
        prev = (sc.CTX.xr, sc.CTX.rewrite)
        if env.sym:
            sc.CTX.xr = XRM.XR("float32")
            sc.CTX.rewrite = False
        try:
            specs, ts, arrays, names = self._make_inputs(env, True)
            extra = self.opdef.extra(self.args, env)
            try:
                o = self.opdef.forward(self.args, ts, extra)
            except Exception as e:  # noqa: BLE001
                if isinstance(e, sc.Unsupported):
                    raise
                out.rejected = "%s: %s" % (type(e).__name__, e)
                return out
            Tn = T()

            def special(arr):
                if env.sym:
                    return [i for i, v in enumerate(np.asarray(arr.view(np.ndarray) if hasattr(arr, "view") else arr, dtype=object).reshape(-1))
                            if isinstance(v, sc.S) and v.n.op in ("inf", "nan")]
                return [i for i, v in enumerate(np.asarray(arr, dtype=np.float64).reshape(-1)) if not np.isfinite(v)]
            outs = as_list(o)
            if any(special(oo.data) for oo in outs):
                raise sc.Unsupported("the forward result is not finite at the zero entry: outside this scenario")
            for k, oo in enumerate(outs):
                if oo.requires_grad:
                    oo.backward(Tn(env.arr("g%d" % k, oo.shape, oo.dtype, lo=-2, hi=2)))
            for sp, t in zip(specs, ts):
                if not t.requires_grad:
                    continue
                gr = gradof(t)
                bad = special(gr) if gr is not None else []
                out.fact("grad(%s) is finite %s" % (sp.label, "where an operand entry is exactly 0" if self.variant.get("zero_first")
                                                    else "on the domain where the operation is smooth with a finite derivative"),
                         gr is not None and not bad,
                         "non-finite gradient entries %s" % (bad,))
        finally:
            sc.CTX.xr, sc.CTX.rewrite = prev
        return out

    def run_vjp(self, env):
        if self.variant.get("zero_first") or self.variant.get("xr"):
            return self.run_zero(env)
        out = E.Outcome()
        specs, ts, arrays, names = self._make_inputs(env, True)
        extra = self.opdef.extra(self.args, env)
        try:
            o = self.opdef.forward(self.args, ts, extra)
        except Exception as e:  # noqa: BLE001 - forward rejected this configuration
            if isinstance(e, sc.Unsupported):
                raise
            out.rejected = "%s: %s" % (type(e).__name__, e)
            return out
        outs = as_list(o)
        Tn = T()
        gdtype = self.variant.get("gdtype")
        gs = []
        if any(t.requires_grad for t in ts):
            # the forward call was accepted and an operand requires grad: backward must be able to reach it
            out.fact("the result of an accepted call with an operand that requires grad can be differentiated",
                     all(oo.requires_grad for oo in outs),
                     "requires_grad of the operands %s, of the results %s" % ([bool(t.requires_grad) for t in ts], [bool(oo.requires_grad) for oo in outs]))
        for k, oo in enumerate(outs):
            if not oo.requires_grad:
                continue
            g = env.arr("g%d" % k, oo.shape, np.dtype(gdtype) if gdtype else oo.dtype, lo=-2, hi=2)
            gs.append((oo, g))
        for oo, g in gs:
            oo.backward(Tn(g))
        if self.variant.get("twice"):
            # the same graph differentiated a second time with another upstream gradient: what backward saved for itself must
            # have survived the first call, and the leaves accumulate the second VJP on top of the first
            again = []
            for k, (oo, g) in enumerate(list(gs)):
                h = env.arr("h%d" % k, oo.shape, np.dtype(gdtype) if gdtype else oo.dtype, lo=-2, hi=2)
                oo.backward(Tn(h))
                again.append((oo, h))
            gs = gs + again
        out.vjp = dict(outs=[oo.data for oo, _ in gs], gs=[g for _, g in gs],
                       inputs=[(sp.label, t.data, gradof(t), t.requires_grad) for sp, t in zip(specs, ts)])
        out.notes["names"] = names
        return out

    run_C01 = run_vjp
    run_C02 = run_vjp

    # ------------------------------------------------------------------ forward value (C05 / C06)
    def run_value(self, env):
        out = E.Outcome()
        specs, ts, arrays, names = self._make_inputs(env, False)
        extra = self.opdef.extra(self.args, env)
        illegal = self.variant.get("illegal", False)
        try:
            o = self.opdef.forward(self.args, ts, extra)
        except Exception as e:  # noqa: BLE001
            if isinstance(e, sc.Unsupported):
                raise
            if illegal:
                out.fact("rejects-illegal-arguments", True)
                return out
            if self.opdef.may_reject(self.args) and exception_origin(e) == "repo":
                out.rejected = "%s: %s" % (type(e).__name__, e)
                return out
            raise
        if not all(isinstance(x, T()) for x in as_list(o)):
            out.fact("the operation returns a Tensor", False, "it returned %s" % ([type(x).__name__ for x in as_list(o)],))
            return out
        if illegal:
            shapes = [tuple(x.shape) for x in as_list(o)]
            out.fact("rejects-illegal-arguments", False,
                     "an argument combination outside the documented domain returned a tensor of shape %s" % (shapes,))
            return out
        try:
            ref = self.opdef.reference(self.args, arrays, extra)
        except sc.Unsupported:
            raise
        except Exception as e:  # noqa: BLE001 - the oracle itself failed on a configuration declared legal
            raise sc.Unsupported("reference failed: %s: %s" % (type(e).__name__, e))
        outs = as_list(o)
        if ref is not None:
            refs = as_list(ref) if isinstance(ref, (tuple, list)) else [ref]
            out.fact("n-outputs", len(refs) == len(outs), "%d outputs, reference has %d" % (len(outs), len(refs)))
            cexp = getattr(self.opdef, "compare_exp", False)
            for k, (oo, rr) in enumerate(zip(outs, refs)):
                if self.args.get("values"):
                    # concrete operand values (special points such as p = 0): the code computes in floating point, so the
                    # comparison is to float32 accuracy, as claims over constants
                    if np.shape(oo.data) != np.shape(rr):
                        out.fact("out%d:shape" % k, False, "observed shape %s, expected %s" % (np.shape(oo.data), np.shape(rr)))
                        continue
                    got = [float(v) for v in np.asarray(oo.data, dtype=np.float64).reshape(-1)]
                    want = [float(v) for v in np.asarray(rr, dtype=np.float64).reshape(-1)]
                    for i_, (a_, b_) in enumerate(zip(got, want)):
                        out.fact("out%d[%d] equals the reference value to float32 accuracy" % (k, i_),
                                 a_ == a_ and abs(a_ - b_) <= 1e-5 * (1 + abs(b_)), "code %.9g, reference %.9g" % (a_, b_))
                    continue
                if cexp and np.shape(oo.data) == np.shape(rr):
                    # log-valued terms are compared after exponentiation (A = B <=> exp(cA) = exp(cB), c != 0;
                    # c undoes the 1/count of a mean so that every log atom has an integer coefficient)
                    c = self.opdef.exp_scale(self.args)
                    out.pair("exp(out%d)" % k, _exp_all(oo.data, c), _exp_all(rr, c))
                else:
                    out.pair("out%d" % k, oo.data, rr)
        else:
            for k, oo in enumerate(outs):
                out.notes["obs:out%d" % k] = oo.data
        out.notes["names"] = names
        return out

    run_C05 = run_value
    run_C06 = run_value

    # ------------------------------------------------------------------ no mutation (C11)
    def run_C11(self, env):
        out = E.Outcome()
        specs, ts, arrays, names = self._make_inputs(env, True)
        extra = self.opdef.extra(self.args, env)
        Tn = T()
        # a bystander outside the graph, with data and an accumulated gradient
        by = Tn(env.arr("by", (2,), np.float32), requires_grad=True)
        by_grad = env.arr("bygrad", (2,), np.float32)
        set_grad(by, by_grad)
        white = set(self.opdef.documented_inplace(self.args))
        watch = [("operand " + sp.label, t.data) for sp, t in zip(specs, ts) if sp.label not in white]
        watch += [("bystander data", by.data), ("bystander grad", by_grad)]
        snaps = [(lab, a, snapshot(a)) for lab, a in watch]
        try:
            o = self.opdef.forward(self.args, ts, extra)
        except Exception as e:  # noqa: BLE001
            if isinstance(e, sc.Unsupported):
                raise
            out.rejected = "%s: %s" % (type(e).__name__, e)
            return out
        outs = as_list(o)
        first = [snapshot(oo.data) for oo in outs]
        for lab, a, snap in snaps:
            out.pair(lab + " unchanged by forward", snapshot(a), snap)
        seeds = []
        for k, oo in enumerate(outs):
            if not oo.requires_grad:
                continue
            g = env.arr("g%d" % k, oo.shape, oo.dtype, lo=-2, hi=2)
            gt = Tn(g)
            seeds.append((k, gt, g, snapshot(g)))
            oo.backward(gt)
        for lab, a, snap in snaps:
            out.pair(lab + " unchanged by backward", snapshot(a), snap)
        for k, gt, g, snap in seeds:
            out.pair("seed gradient %d unchanged" % k, snapshot(gt.data), snap)
            out.fact("seed gradient %d keeps its array" % k, gt.data is g)
        for sp, t, a in zip(specs, ts, arrays):
            if sp.label not in white:
                out.fact("operand %s keeps its array" % sp.label, t.data is a)
            if gradof(t) is not None:
                out.fact("grad(%s) does not share memory with a seed gradient" % sp.label,
                         not any(np.shares_memory(ar.unwrap(gradof(t)), ar.unwrap(g)) for _, _, g, _ in seeds))
        # accumulate once more into the leaves: the caller's seed must still be untouched
        o2 = self.opdef.forward(self.args, ts, self.opdef.extra(self.args, env) if False else extra)
        if self.opdef.deterministic(self.args):
            for k, (oo, f) in enumerate(zip(as_list(o2), first)):
                out.pair("repeated forward %d identical" % k, oo.data, f)
        for k, gt, g, snap in seeds:
            oo = as_list(o2)[k]
            if oo.requires_grad:
                oo.backward(gt)
            out.pair("seed gradient %d unchanged by a second backward" % k, snapshot(gt.data), snap)
        for lab, a, snap in snaps:
            out.pair(lab + " unchanged by repetition", snapshot(a), snap)
        # what an earlier call returned is the caller's: a later call (forward or backward) must neither overwrite it nor
        # hand out the same storage again
        for k, (oo, f) in enumerate(zip(outs, first)):
            out.pair("result %d of the first call unchanged by the later calls" % k, snapshot(oo.data), f)
            o2k = as_list(o2)[k]
            # (results that are views of an operand - reshape, transpose, indexing, identity in eval mode - share the
            # operand's storage by design; what must not happen is two calls handing out the same *private* buffer)
            is_view = any(np.shares_memory(ar.unwrap(oo.data), ar.unwrap(t.data)) for t in ts)
            out.fact("results %d of two calls do not share a buffer of the library's own" % k,
                     oo.data.size == 0 or is_view or not np.shares_memory(ar.unwrap(oo.data), ar.unwrap(o2k.data)))
        return out

    # ------------------------------------------------------------------ dtype / shape facts (C10)
    def run_C10(self, env):
        out = E.Outcome()
        specs, ts, arrays, names = self._make_inputs(env, True)
        extra = self.opdef.extra(self.args, env)
        # operand dtypes as handed in (round k: read before the call - a layer that rebinds the data of a state tensor it was
        # given, e.g. running statistics promoted to float64, must not thereby excuse a promoted result)
        in_dts = {str(t.dtype) for sp, t in zip(specs, ts) if str(t.dtype).startswith("float")}
        try:
            o = self.opdef.forward(self.args, ts, extra)
        except Exception as e:  # noqa: BLE001
            if isinstance(e, sc.Unsupported):
                raise
            out.rejected = "%s: %s" % (type(e).__name__, e)
            return out
        outs = as_list(o)
        Tn = T()
        gdtype = np.dtype(self.variant.get("gdtype", "float32"))
        for k, oo in enumerate(outs):
            if len(in_dts) == 1:
                want = next(iter(in_dts))
                out.fact("out%d:dtype" % k, str(oo.dtype) == want,
                         "result dtype %s for %s operands (result shape %s)" % (oo.dtype, want, tuple(oo.shape)))
            out.notes["obs:out%d" % k] = oo.data
        for k, oo in enumerate(outs):
            if not oo.requires_grad:
                continue
            g = env.arr("g%d" % k, oo.shape, gdtype, lo=-2, hi=2)
            oo.backward(Tn(g))
            rg = oo.grad
            out.fact("out%d:root-grad" % k, rg is not None and str(rg.dtype) == str(oo.dtype) and tuple(rg.shape) == tuple(oo.shape),
                     "root .grad dtype %s shape %s for a %s tensor of shape %s seeded with a %s gradient" % (
                         None if rg is None else rg.dtype, None if rg is None else tuple(rg.shape), oo.dtype,
                         tuple(oo.shape), gdtype))
        for sp, t in zip(specs, ts):
            if not t.requires_grad:
                continue
            gr = t.grad
            if gr is None:
                out.fact(sp.label + ":grad", False, "no .grad after backward")
                continue
            out.fact(sp.label + ":grad", str(gr.dtype) == str(t.dtype) and tuple(gr.shape) == tuple(t.shape),
                     ".grad dtype %s shape %s for a %s tensor of shape %s (upstream gradient %s)" % (
                         gr.dtype, tuple(gr.shape), t.dtype, tuple(t.shape), gdtype))
            out.notes["obs:grad(%s)" % sp.label] = gradof(t)
        return out


def relayout(a, layout):
    """same elements, same shape, different memory layout: 'T' = Fortran order (a transposed view of a C-ordered
    buffer), 'S' = every second element of a buffer twice as wide (stepped slice).  Operands reaching an op as
    non-contiguous views is ordinary API use (slicing and transposing return views)."""
    raw = a.view(np.ndarray) if isinstance(a, ar.SymArray) else a
    if layout == "T":
        buf = np.empty(raw.shape[::-1], dtype=raw.dtype)
        v = buf.transpose()
    elif layout == "S":
        buf = np.empty(raw.shape[:-1] + (2 * raw.shape[-1],), dtype=raw.dtype)
        if raw.dtype == object:
            buf[...] = S(sc.const(0))
        else:
            buf[...] = 0
        v = buf[..., ::2]
    else:
        raise ValueError(layout)
    v[...] = raw
    if isinstance(a, ar.SymArray):
        v = v.view(ar.SymArray)
        v._nd = a._nd
    return v


def snapshot(a):
    """element-wise copy: an object array copy keeps references to the very same scalar nodes, a float array
    copy keeps the bytes"""
    if isinstance(a, ar.SymArray):
        o = a.view(np.ndarray).copy().view(ar.SymArray)
        o._nd = a._nd
        return o
    return np.array(a, copy=True)


def _exp_all(x, c=1):
    nd = x._nd if isinstance(x, ar.SymArray) else None
    x = x.view(np.ndarray) if isinstance(x, np.ndarray) else np.asarray(x)
    symbolic = x.dtype == object
    o = np.empty(x.shape, dtype=object if symbolic else x.dtype)
    for idx in np.ndindex(*x.shape):
        v = x[idx]
        o[idx] = (v * c).exp() if isinstance(v, S) else (S(sc.const(v * c)).exp() if symbolic else np.exp(v * c))
    if symbolic:
        o = o.view(ar.SymArray)
        o._nd = nd if nd is not None else np.dtype(np.float64)
    return o


# ------------------------------------------------------------------------------------------------ shape helpers
def bshape(*shapes):
    """NumPy/PyTorch broadcasting rule written out by hand (raises ValueError when incompatible)."""
    r = max((len(s) for s in shapes), default=0)
    out = []
    for k in range(r):
        ext = 1
        for s in shapes:
            j = len(s) - r + k
            if j < 0:
                continue
            e = s[j]
            if e != 1:
                if ext != 1 and ext != e:
                    raise ValueError("not broadcastable: %s" % (shapes,))
                ext = e
        out.append(ext)
    return tuple(out)


def bidx(idx, shape, out_rank):
    """index into an operand of ``shape`` for output index ``idx`` under broadcasting"""
    off = out_rank - len(shape)
    return tuple(0 if shape[j] == 1 else idx[j + off] for j in range(len(shape)))


def broadcastable(*shapes):
    try:
        bshape(*shapes)
        return True
    except ValueError:
        return False


def norm_dim(d, r):
    if not -r <= d < r:
        raise IndexError("dim %d out of range for rank %d" % (d, r))
    return d % r if r else 0
