"""E3 lemmas: integer index arithmetic of the repository, translated from its current source to SMT-LIB2 and decided by
z3 and cvc5 (both must agree).  Variables that multiply or divide another variable (kernel, dilation, stride, batch
size) are enumerated; sizes and paddings stay symbolic up to 10^6."""
from __future__ import annotations

import itertools
import random
import re
import time

from . import ast2smt as A

BIG = 10 ** 6


def _summ(name, res, nq, extra=None):
    z, c = res["z3"], res["cvc5"]
    agree = sum(1 for a, b in zip(z, c) if a == b)
    unsat = sum(1 for a, b in zip(z, c) if a == b == "unsat")
    bad = [i for i, (a, b) in enumerate(zip(z, c)) if "sat" in (a, b) and not (a == b == "unsat") and (a == "sat" or b == "sat")]
    out = {"lemma": name, "queries": nq, "both_unsat": unsat, "solvers_agree": agree, "sat_indices": bad[:5],
           "z3_s": round(res["z3_s"], 2), "cvc5_s": round(res["cvc5_s"], 2),
           "inconclusive": sum(1 for a, b in zip(z, c) if not (a == b == "unsat") and "sat" not in (a, b) or (a != b and "sat" not in (a, b)))}
    if extra:
        out.update(extra)
    return out


def conv_size_lemma(tier):
    """get_conv1d_output_size and the two lines of get_conv2d_output_size equal floor((L+2p-d(k-1)-1)/s)+1 and are
    >= 1 exactly when the dilated kernel fits, for all 0 <= L, p <= 10^6 and every (k, d, s) in 1..8 (1..4 quick)."""
    import synapgrad.conv_tools as ct
    t0 = time.time()
    rng = range(1, 5) if tier == "quick" else range(1, 9)
    body1, _ = A.function_body(ct.get_conv1d_output_size)
    body2, _ = A.function_body(ct.get_conv2d_output_size)
    decls = ["(declare-const L Int)", "(declare-const p Int)"]
    queries = []
    meta = []
    for k, d, s in itertools.product(rng, rng, rng):
        env = {"input_length": A.Term("L", "Int"), "padding": A.Term("p", "Int"), "kernel_size": A.lit(k),
               "stride": A.lit(s), "dilation": A.lit(d)}
        tr = A.Translator(env)
        tr.run(body1)
        if tr.ret is None:
            raise A.Unsup("get_conv1d_output_size: no return term")
        r1 = tr.ret.s
        env2 = {"H": A.Term("L", "Int"), "W": A.Term("L", "Int"), "padding[0]": A.Term("p", "Int"), "padding[1]": A.Term("p", "Int"),
                "kernel_size[0]": A.lit(k), "kernel_size[1]": A.lit(k), "stride[0]": A.lit(s), "stride[1]": A.lit(s),
                "dilation[0]": A.lit(d), "dilation[1]": A.lit(d)}
        tr2 = A.Translator(env2)
        tr2.run([st for st in body2 if not (isinstance(st, A.ast.Assign) and isinstance(st.targets[0], A.ast.Tuple))])
        if not isinstance(tr2.ret, list) or len(tr2.ret) != 2:
            raise A.Unsup("get_conv2d_output_size: no return pair")
        spec = "(+ (div (- (+ L (* 2 p)) (+ %d 1)) %d) 1)" % (d * (k - 1), s)
        dom = "(and (<= 0 L %d) (<= 0 p %d))" % (BIG, BIG)
        fits = "(>= (+ L (* 2 p)) %d)" % (d * (k - 1) + 1)
        for r in (r1, tr2.ret[0].s, tr2.ret[1].s):
            queries.append([dom, "(not (= %s %s))" % (r, spec)])
            queries.append([dom, "(not (= (>= %s 1) %s))" % (r, fits)])
            meta.append((k, d, s))
            meta.append((k, d, s))
    res = A.solve_batch(decls, queries, timeout=300)
    # vacuity / sensitivity twin: the domain alone is satisfiable and a wrong formula (+2 instead of +1) is refuted
    ctl = A.solve_batch(decls, [[dom], [dom, "(not (= %s (+ (div (- (+ L (* 2 p)) (+ %d 1)) %d) 2)))" % (r1, d * (k - 1), s)]], timeout=60)
    controls_ok = ctl["z3"] == ["sat", "sat"] and ctl["cvc5"] == ["sat", "sat"]
    # translator validation: concrete inputs through the real function and through the encoding
    rnd = random.Random(5)
    nval = 0
    bad = 0
    for _ in range(40 if tier == "quick" else 200):
        L, p = rnd.randint(0, 50), rnd.randint(0, 5)
        k, d, s = rnd.choice(list(rng)), rnd.choice(list(rng)), rnd.choice(list(rng))
        env = {"input_length": A.Term("L", "Int"), "padding": A.Term("p", "Int"), "kernel_size": A.lit(k), "stride": A.lit(s),
               "dilation": A.lit(d)}
        tr = A.Translator(env)
        tr.run(body1)
        out = A.get_values(decls, {"L": str(L), "p": str(p)}, [tr.ret.s])
        m = re.search(r"\(res0 (\(- \d+\)|-?\d+)\)", out.replace("\n", " "))
        real = ct.get_conv1d_output_size(L, k, s, p, d)
        if m:
            v = m.group(1)
            v = -int(v[3:-1]) if v.startswith("(-") else int(v)
            nval += 1
            if v != real:
                bad += 1
    return _summ("conv output size", res, len(queries), {"translator_validation_points": nval, "translator_mismatches": bad,
                                                           "negative_controls_sat": controls_ok,
                                                           "wall_s": round(time.time() - t0, 1),
                                                           "functions": ["synapgrad.conv_tools:get_conv1d_output_size",
                                                                         "synapgrad.conv_tools:get_conv2d_output_size"],
                                                           "bounds": "0 <= L, p <= 10^6; k, d, s in 1..%d" % (rng[-1],)}), meta


def dataloader_lemma(tier):
    """DataLoader.__len__ / __getitem__: for every n <= 10^6 and batch size 1..8 (enumerated): len = n div bs, and for
    every 0 <= idx < len the slice [start, end) has exactly bs elements, lies inside [0, n) and is followed directly by
    the next batch."""
    from synapgrad.nn.utils.data import DataLoader
    t0 = time.time()
    b_len, _ = A.function_body(DataLoader.__len__)
    b_get, _ = A.function_body(DataLoader.__getitem__)
    decls = ["(declare-const n Int)", "(declare-const idx Int)"]
    queries = []
    for bs in range(1, 9):
        env = {"len(self.y)": A.Term("n", "Int"), "self.batach_size": A.lit(bs), "idx": A.Term("idx", "Int")}
        tl = A.Translator(env)
        tl.run(b_len)
        tg = A.Translator(env)
        tg.run(b_get)
        if tl.ret is None or "start" not in tg.env or "end" not in tg.env:
            raise A.Unsup("DataLoader source has an unexpected form")
        ln, st, en = tl.ret.s, tg.env["start"].s, tg.env["end"].s
        env1 = dict(env)
        env1["idx"] = A.Term("(+ idx 1)", "Int")
        tg1 = A.Translator(env1)
        tg1.run(b_get)
        dom = "(and (<= 0 n %d) (<= 0 idx) (< idx %s))" % (BIG, ln)
        queries.append(["(<= 0 n %d)" % BIG, "(not (= %s (div n %d)))" % (ln, bs)])
        queries.append([dom, "(not (and (<= 0 %s) (<= %s n) (= (- %s %s) %d)))" % (st, en, en, st, bs)])
        queries.append([dom, "(not (= %s %s))" % (tg1.env["start"].s, en)])
        # no sample before the last full batch is skipped: after len batches fewer than bs samples remain
        queries.append(["(<= 0 n %d)" % BIG, "(not (and (<= (* %s %d) n) (< (- n (* %s %d)) %d)))" % (ln, bs, ln, bs, bs)])
    res = A.solve_batch(decls, queries, timeout=120)
    ctl = A.solve_batch(decls, [[dom], [dom, "(not (= (- %s %s) %d))" % (en, st, bs + 1)]], timeout=60)
    controls_ok = ctl["z3"] == ["sat", "sat"] and ctl["cvc5"] == ["sat", "sat"]
    return _summ("DataLoader slicing", res, len(queries), {"wall_s": round(time.time() - t0, 1), "negative_controls_sat": controls_ok,
                                                            "functions": ["synapgrad.nn.utils.data:DataLoader.__len__",
                                                                          "synapgrad.nn.utils.data:DataLoader.__getitem__"],
                                                            "bounds": "0 <= n <= 10^6; batch size 1..8"})
