"""Parallel driver, known-findings filter, evidence writer."""
from __future__ import annotations

import fnmatch
import hashlib
import importlib
import json
import multiprocessing as mp
import os
import signal
import sys
import time
import traceback

from . import common

VERIF = common.VERIF
# own experiments (seeded-change runs against VERIF_REPO) can redirect evidence/replays; registered commands never set it
OUT = os.environ.get("VERIF_OUT", VERIF)


# ------------------------------------------------------------------------------------------------ workers
_OPTS = None


def _init_worker(tier, seed, optkw=None):
    global _OPTS
    common.load_repo()
    from .symnum import engine as E
    _OPTS = E.Options(tier, seed)
    for k, v in (optkw or {}).items():
        setattr(_OPTS, k, v)


class _Timeout(Exception):
    pass


def _alarm(signum, frame):
    raise _Timeout()


def _work_single(item):
    """every case runs in a forked child of the pool worker: a crash of the interpreter (the real kernels do
    pointer arithmetic through as_strided; on object arrays a wild read is a segfault) or a hang inside C code
    is then an outcome of that one case, not of the whole check."""
    import select
    modname, spec, limit = item
    r, w = os.pipe()
    pid = os.fork()
    if pid == 0:
        os.close(r)
        code = 0
        try:
            res = _work_inner(item)
            data = json.dumps(res, default=str).encode()
        except BaseException as e:  # noqa: BLE001
            data = json.dumps({"sig": json.dumps(spec), "status": "harness", "inconclusive": ["worker error: %r" % (e,)],
                               "violations": [], "spec": spec, "module": modname}).encode()
            code = 3
        try:
            off = 0
            while off < len(data):
                off += os.write(w, data[off:off + 65536])
        finally:
            os._exit(code)
    os.close(w)
    chunks = []
    deadline = time.time() + limit + 60
    timed_out = False
    while True:
        left = deadline - time.time()
        if left <= 0:
            timed_out = True
            break
        rd, _, _ = select.select([r], [], [], min(left, 5.0))
        if rd:
            b = os.read(r, 1 << 20)
            if not b:
                break
            chunks.append(b)
    os.close(r)
    if timed_out:
        try:
            os.kill(pid, signal.SIGKILL)
        except OSError:
            pass
    _, status = os.waitpid(pid, 0)
    data = b"".join(chunks)
    if data and not timed_out:
        try:
            return json.loads(data.decode())
        except ValueError:
            pass
    base = {"sig": json.dumps(spec, sort_keys=True), "violations": [], "paths": 0, "queries": 0, "solver_s": 0, "obligations": 0,
            "discharged": 0, "validated": 0, "funcs": [], "twins_sat": 0, "runs": 0, "goals": 0, "spec": spec,
            "module": modname, "wall_s": 0}
    if timed_out:
        base.update(status="inconclusive", inconclusive=["hard time limit: case killed after %ds" % (limit + 60)])
        return base
    sig = os.WTERMSIG(status) if os.WIFSIGNALED(status) else None
    return _after_crash(base, modname, spec, sig)


def _work(item):
    """item = (module, spec | [specs], limit).  A list is a *chain*: its configurations run one after the other in ONE
    forked child, so that anything the library remembers between calls (module-level caches, buffers, flags) is carried
    from one configuration to the next, as it would be in a user's process.  If the chain's child dies or hangs, the
    configurations are re-run one by one, each in its own child."""
    import select
    modname, spec, limit = item
    if not isinstance(spec, list):
        return [_work_single(item)]
    if len(spec) == 1:
        return [_work_single((modname, spec[0], limit))]
    r, w = os.pipe()
    pid = os.fork()
    if pid == 0:
        os.close(r)
        code = 0
        try:
            out = []
            for k, sp in enumerate(spec):
                res = _work_inner((modname, sp, limit))
                res["chain"] = spec[:k]
                out.append(res)
            data = json.dumps(out, default=str).encode()
        except BaseException:  # noqa: BLE001
            data = b""
            code = 3
        try:
            off = 0
            while off < len(data):
                off += os.write(w, data[off:off + 65536])
        finally:
            os._exit(code)
    os.close(w)
    chunks = []
    deadline = time.time() + limit * len(spec) + 60
    timed_out = False
    while True:
        left = deadline - time.time()
        if left <= 0:
            timed_out = True
            break
        rd, _, _ = select.select([r], [], [], min(left, 5.0))
        if rd:
            b = os.read(r, 1 << 20)
            if not b:
                break
            chunks.append(b)
    os.close(r)
    if timed_out:
        try:
            os.kill(pid, signal.SIGKILL)
        except OSError:
            pass
    os.waitpid(pid, 0)
    data = b"".join(chunks)
    if data and not timed_out:
        try:
            return json.loads(data.decode())
        except ValueError:
            pass
    return [_work_single((modname, sp, limit)) for sp in spec]


def _after_crash(base, modname, spec, sig):
    """the symbolic run killed the interpreter (signal).  Replay a sampled point on the plain code, where the same
    wild read returns foreign numbers instead of crashing, and let the case's oracle judge."""
    from .symnum import engine as E
    why = "the symbolic run of the real code crashed the interpreter (signal %s)" % sig
    try:
        mod = importlib.import_module(modname)
        case = mod.build(spec)
        base["sig"] = case.sig
        import random as _r
        env = E.Env("plain64", point={}, rng=_r.Random(7))
        env.autosample = True
        try:
            case.run(env)
        except Exception:  # noqa: BLE001
            pass
        cand = {"label": "interpreter crash", "kind": "value", "detail": why, "point": dict(env.point)}
        ok, detail = E._replay(case, cand, any(k.startswith("rng") for k in env.point))
        if ok:
            cand["replay"] = detail
            base.update(status="violation", violations=[cand], obligations=1)
            return base
        base.update(status="inconclusive", inconclusive=[why + "; plain replay at a sampled point: " + detail])
    except Exception as e:  # noqa: BLE001
        base.update(status="inconclusive", inconclusive=[why + "; replay failed: %r" % (e,)])
    return base


def _work_inner(item):
    modname, spec, limit = item
    from .symnum import engine as E
    from .symnum import array as ar
    mod = importlib.import_module(modname)
    t0 = time.time()
    try:
        case = mod.build(spec)
    except Exception as e:  # noqa: BLE001
        return {"sig": json.dumps(spec), "status": "harness", "inconclusive": ["build failed: %r" % (e,)],
                "violations": [], "spec": spec, "paths": 0, "queries": 0, "solver_s": 0, "obligations": 0,
                "discharged": 0, "validated": 0, "funcs": [], "twins_sat": 0, "runs": 0, "goals": 0,
                "wall_s": 0, "tb": traceback.format_exc(limit=5)}
    # the harness' own globals are put back to their defaults (a chain shares the process); what the *library* remembers
    # between calls is deliberately kept
    common.reset_modes()
    signal.signal(signal.SIGALRM, _alarm)
    signal.alarm(int(limit))
    try:
        decide = getattr(case, "decide", None)
        res = decide(_OPTS) if decide is not None else E.decide_case(case, _OPTS)
    except _Timeout:
        res = {"sig": case.sig, "status": "inconclusive", "inconclusive": ["case time limit %ds" % limit],
               "violations": [], "paths": 0, "queries": 0, "solver_s": 0, "obligations": 0, "discharged": 0,
               "validated": 0, "funcs": [], "twins_sat": 0, "runs": 0, "goals": 0}
    except Exception as e:  # noqa: BLE001
        res = {"sig": case.sig, "status": "harness", "inconclusive": ["engine error: %r" % (e,)],
               "violations": [], "paths": 0, "queries": 0, "solver_s": 0, "obligations": 0, "discharged": 0,
               "validated": 0, "funcs": [], "twins_sat": 0, "runs": 0, "goals": 0,
               "tb": traceback.format_exc(limit=8)}
    finally:
        signal.alarm(0)
        try:
            ar.uninstall()
        except Exception:  # noqa: BLE001
            pass
    res["spec"] = spec
    res["module"] = modname
    res.setdefault("wall_s", round(time.time() - t0, 3))
    return res


def run_pool(modname, specs, tier, seed, limit=None, procs=None, optkw=None, chain=1):
    """chain > 1: consecutive configurations (in the order given) share one process, see _work"""
    limit = limit or (120 if tier == "quick" else 900)
    procs = procs or int(os.environ.get("VERIF_PROCS", "16"))
    chain = int(os.environ.get("VERIF_CHAIN", chain))
    if chain > 1:
        items = [(modname, specs[i:i + chain], limit) for i in range(0, len(specs), chain)]
    else:
        items = [(modname, s, limit) for s in specs]
    if procs <= 1 or len(items) <= 1:
        _init_worker(tier, seed, optkw)
        out = [r for i in items for r in _work(i)]
        out.sort(key=lambda r: r["sig"])
        return out
    ctx = mp.get_context("fork")
    with ctx.Pool(min(procs, len(items)), initializer=_init_worker, initargs=(tier, seed, optkw)) as pool:
        out = [r for rs in pool.imap_unordered(_work, items, chunksize=max(1, min(8, len(items) // (procs * 4) or 1))) for r in rs]
    out.sort(key=lambda r: r["sig"])
    return out


# ------------------------------------------------------------------------------------------------ findings
def load_findings():
    p = os.path.join(VERIF, "known_findings.json")
    if not os.path.exists(p):
        return []
    with open(p) as f:
        return json.load(f).get("findings", [])


def match_known(prop, sig, label, findings):
    for f in findings:
        if f.get("status") != "known" or f.get("property") != prop:
            continue
        if not fnmatch.fnmatchcase(sig, f["selector"]):
            continue
        if "label" in f and not fnmatch.fnmatchcase(label, f["label"]):
            continue
        return f
    return None


def write_replay(prop, res, v):
    os.makedirs(os.path.join(OUT, "replays"), exist_ok=True)
    h = hashlib.sha1((res["sig"] + "|" + v.get("label", "")).encode()).hexdigest()[:12]
    path = os.path.join(OUT, "replays", "%s-%s.json" % (prop, h))
    with open(path, "w") as f:
        json.dump({"property": prop, "module": res.get("module"), "spec": res.get("spec"), "sig": res["sig"],
                   "chain": res.get("chain", []), "violation": v}, f, indent=1, default=str)
    return path


# ------------------------------------------------------------------------------------------------ report
def finish(prop, tier, seed, results, t0, *, level="model_checking", bounds=None, assumptions=None, stubs=None,
           rule="", extra_cov=None, extra_lines=None, extra_violations=0):
    findings = load_findings()
    n_viol = int(extra_violations)
    known_hit = {}
    lines = []
    for r in results:
        for v in r.get("violations", []):
            k = match_known(prop, r["sig"], v.get("label", ""), findings)
            if k is not None:
                known_hit.setdefault(k["selector"] + "|" + k.get("label", ""), (k, []))[1].append(r["sig"])
                v["known"] = True
                continue
            n_viol += 1
            path = write_replay(prop, r, v)
            lines.append("VIOLATION property=%s replay=%s" % (prop, path))
            lines.append("  case %s: %s [%s] %s" % (r["sig"], v.get("label"), v.get("kind"), v.get("detail", "")[:300]))
            if v.get("replay"):
                lines.append("  reproduced on the un-instrumented code: %s" % v["replay"][:300])
    for key, (k, sigs) in sorted(known_hit.items()):
        print("KNOWN-FINDING: property=%s %s (%d configuration(s), e.g. %s)" % (prop, k["what"], len(sigs), sigs[0]))
    for ln in lines:
        print(ln)
    states = sum(r.get("paths", 0) for r in results)
    queries = sum(r.get("queries", 0) for r in results)
    inconc = [r for r in results if r.get("inconclusive")]
    harness = [r for r in results if r.get("status") == "harness"]
    reasons = {}
    for r in inconc:
        for why in r["inconclusive"]:
            key = why[:90]
            reasons[key] = reasons.get(key, 0) + 1
    funcs = sorted(set(f for r in results for f in r.get("funcs", [])))
    cands = [r["sample"] for r in results if r.get("sample")]
    cands.sort(key=lambda x: (-int("example_obligation" in x), -int(bool(x.get("path_condition")))))
    samples, seen_ops = [], set()
    for x in cands:                       # a handful of cases from different operations, richest first
        opname = x["sig"].split("{")[0]
        if opname in seen_ops:
            continue
        seen_ops.add(opname)
        samples.append(x)
        if len(samples) >= 5:
            break
    if not samples:
        samples = [{"sig": r["sig"]} for r in results[:3]]
    cov = {
        "states": max(states, 0),
        "transitions": max(queries, 0),
        "traces_validated_against_impl": sum(r.get("validated", 0) for r in results),
        "samples": samples,
        "configurations": len(results),
        "configurations_ok": sum(1 for r in results if r.get("status") == "ok"),
        "configurations_rejected_by_forward": sum(1 for r in results if r.get("rejected")),
        "configurations_with_violation": sum(1 for r in results if r.get("violations")),
        "configurations_inconclusive": len(inconc),
        "inconclusive_reasons": dict(sorted(reasons.items(), key=lambda kv: -kv[1])[:12]),
        "inconclusive_examples": [{"sig": r["sig"], "why": r["inconclusive"][0][:160]} for r in inconc[:12]],
        "paths_explored": states,
        "path_coverage_proved_complete": sum(1 for r in results if r.get("complete")),
        "symbolic_runs": sum(r.get("runs", 0) for r in results),
        "tie_paths_examined": sum(r.get("tie_paths", 0) for r in results),
        "cross_solver_checked": sum(len(r.get("solver_diff", [])) for r in results),
        "cross_solver_confirmed_by_z3_4.8.12": sum(1 for r in results for d in r.get("solver_diff", []) if "z3_4.8.12" in d["confirmed_by"]),
        "cross_solver_confirmed_by_cvc5": sum(1 for r in results for d in r.get("solver_diff", []) if "cvc5_1.0.3" in d["confirmed_by"]),
        "cross_solver_disagreements": sum(1 for r in results for d in r.get("solver_diff", []) if not d["agree"]),
        "obligations": sum(r.get("obligations", 0) for r in results),
        "discharged": sum(r.get("discharged", 0) for r in results),
        "goal_pairs": sum(r.get("goals", 0) for r in results),
        "smt_queries": queries,
        "solver_time_s": round(sum(r.get("solver_s", 0) for r in results), 2),
        "vacuity_twins_sat": sum(r.get("twins_sat", 0) for r in results),
        # configurations whose path coverage is claimed outside a band of 1e-9 around tie surfaces the exploration kept hitting
        "configurations_with_tie_bands": sum(1 for r in results if r.get("tie_bands")),
        "functions_encoded": funcs,
        "bounds": bounds or {},
        "stubs": stubs or [],
        "exhaustive": True,
        "rule": rule,
        "known_findings_hit": [k["what"] for k, _ in known_hit.values()],
        "unlisted_violations": n_viol,
    }
    if extra_cov:
        cov.update(extra_cov)
    ev = {"property_id": prop, "tier": tier, "seed": seed, "level": level, "coverage": cov,
          "assumptions": list(assumptions or []) + (
              ["%d configuration(s): path coverage is shown outside a band of 1e-9 around tie surfaces (thresholds the "
               "exploration kept landing on: the uncovered real-valued sliver there is narrower than floating point resolves)"
               % cov["configurations_with_tie_bands"]] if cov.get("configurations_with_tie_bands") else []),
          "wall_s": round(time.time() - t0, 2), "violations": n_viol}
    if cov["states"] < 1:
        cov["states"] = 1
    if cov["transitions"] < 1:
        cov["transitions"] = 1
    os.makedirs(os.path.join(OUT, "evidence"), exist_ok=True)
    with open(os.path.join(OUT, "evidence", prop + ".json"), "w") as f:
        json.dump(ev, f, indent=1, default=str)
    print("%s %s: %d configurations, %d paths, %d SMT queries (%.1fs solver), %d/%d obligations discharged, "
          "%d inconclusive, %d known-finding configs, %d unlisted violations, %.1fs wall" % (
              prop, tier, len(results), states, queries, cov["solver_time_s"], cov["discharged"], cov["obligations"],
              len(inconc), sum(len(s) for _, s in known_hit.values()), n_viol, time.time() - t0))
    for why, n in list(cov["inconclusive_reasons"].items())[:6]:
        print("  inconclusive x%d: %s" % (n, why))
    if extra_lines:
        for ln in extra_lines:
            print(ln)
    if n_viol:
        return 1
    if results and len(harness) == len(results):
        print("HARNESS-ERROR: every configuration failed in the harness")
        for r in harness[:3]:
            print("  ", r["sig"], r.get("inconclusive"), r.get("tb", ""))
        return 2
    return 0
