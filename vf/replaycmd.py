"""Re-run a recorded counterexample on the un-instrumented code."""
from __future__ import annotations

import importlib
import json

from . import common


def main(path):
    with open(path) as f:
        rec = json.load(f)
    common.load_repo()
    mod = importlib.import_module(rec["module"])
    from .symnum import engine as E
    for sp in rec.get("chain", []):       # configurations that ran earlier in the same process: replay their calls first
        try:
            E.run_plain(mod.build(sp), {}, "plain")
        except Exception:  # noqa: BLE001
            pass
    case = mod.build(rec["spec"])
    v = rec["violation"]
    rp = getattr(case, "replay", None)
    if rp is not None:
        ok, detail = rp(v)
    else:
        from .symnum import engine as E
        uses_rng = any(k.startswith("rng") for k in v.get("point", {}))
        ok, detail = E.replay_generic(case, v, uses_rng)
    print("case:", rec["sig"])
    print("what:", v.get("label"), v.get("kind"), v.get("detail", ""))
    print("point:", json.dumps(v.get("point", {})))
    if ok:
        print("REPRODUCED on the plain code:", detail)
        print("VIOLATION property=%s replay=%s" % (rec["property"], path))
        return 1
    print("not reproduced:", detail)
    return 0
