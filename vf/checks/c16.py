"""C16 - the three im2col / col2im implementations agree, extract/place_windows agree with them, col2im is the
exact adjoint of im2col and fold(unfold(x)) = count * x.  Direct calls of synapgrad.conv_tools."""
from __future__ import annotations

import time

import numpy as np

from ..harness import objarr, sig_of
from ..opcat_nn import geo2d, out_len, win2d, PAD
from ..opcat_tensor import ssum
from ..symnum import engine as E
from .. import runner

PROP = "C16"


def unfold_ref(x, k, s, p, d, pad):
    N, C, H, W = x.shape
    lH, lW = out_len(H, k[0], s[0], p[0], d[0]), out_len(W, k[1], s[1], p[1], d[1])
    o = objarr((N, C * k[0] * k[1], lH * lW))
    for n in range(N):
        for c in range(C):
            for i in range(lH):
                for j in range(lW):
                    for q, v in enumerate(win2d(x, n, c, i, j, k, s, p, d)):
                        o[n, c * k[0] * k[1] + q, i * lW + j] = pad if v is PAD else v
    return o


def cols2d(u):
    """documented 2-D layout (C*kH*kW, N*L): column l*N + n holds block l of image n"""
    N, Q, L_ = u.shape
    o = objarr((Q, N * L_))
    for n in range(N):
        for q in range(Q):
            for l in range(L_):
                o[q, l * N + n] = u[n, q, l]
    return o


def fold_ref(y, shape, k, s, p, d):
    N, C, H, W = shape
    lH, lW = out_len(H, k[0], s[0], p[0], d[0]), out_len(W, k[1], s[1], p[1], d[1])
    o = objarr(shape)
    for idx in np.ndindex(*shape):
        o[idx] = 0
    for n in range(N):
        for c in range(C):
            for i in range(lH):
                for j in range(lW):
                    for u in range(k[0]):
                        for v in range(k[1]):
                            a = i * s[0] + u * d[0] - p[0]
                            b = j * s[1] + v * d[1] - p[1]
                            if 0 <= a < H and 0 <= b < W:
                                o[n, c, a, b] = o[n, c, a, b] + y[n, c * k[0] * k[1] + u * k[1] + v, i * lW + j]
    return o


def dot(a, b):
    return ssum(x * y for x, y in zip(np.asarray(a).reshape(-1) if not isinstance(a, np.ndarray) else a.reshape(-1),
                                     b.reshape(-1)))


class Case:
    prop = PROP

    def __init__(self, spec):
        self.spec = spec
        self.sig = sig_of("convtools", spec, None)

    def run(self, env):
        if "then" in self.spec:
            # two geometries back to back in one process: nothing may be remembered from the first call
            first = Case({k: v for k, v in self.spec.items() if k != "then"})
            first.prefix = "first:"
            o1 = first.run(env)
            second = Case(self.spec["then"])
            second.prefix = "second:"
            o2 = second.run(env)
            o1.pairs += o2.pairs
            o1.facts += o2.facts
            return o1
        return self._run(env)

    prefix = ""

    def _run(self, env):
        import synapgrad.conv_tools as ct
        sp = self.spec
        N, C, H, W = sp["N"], sp["C"], sp["H"], sp["W"]
        k, s, p, d = (tuple(sp[q]) for q in ("k", "s", "p", "d"))
        # the documented int form of the geometry arguments (square geometries only); the references keep the tuples
        A = (lambda t: int(t[0])) if sp.get("argform") == "int" else (lambda t: t)
        if sp.get("argform") == "npint":     # NumPy integers (what shape arithmetic on arrays produces), signed and unsigned
            A = lambda t: np.uint8(t[0])     # noqa: E731
        elif sp.get("argform") == "nptuple":
            A = lambda t: tuple(np.int64(v) for v in t)     # noqa: E731
        kk, ss, pp, dd = A(k), A(s), A(p), A(d)
        out = E.Outcome()
        x = env.arr(self.prefix.replace(":", "_") + "x", (N, C, H, W))
        if sp.get("layout"):        # the image arrives as a non-contiguous view (transposed / strided) of the same values
            from ..harness import relayout
            x = relayout(x, sp["layout"])
        pad = env.scalar(self.prefix.replace(":", "_") + "pad", lo=-3, hi=3, kind="data")
        lH, lW = out_len(H, k[0], s[0], p[0], d[0]), out_len(W, k[1], s[1], p[1], d[1])
        Lw = lH * lW
        uref = unfold_ref(x, k, s, p, d, pad)
        cref = cols2d(uref)
        fns = {"im2col": ct.im2col, "im2col_v2": ct.im2col_v2, "im2col_fast": ct.im2col_fast}
        for nm, f in fns.items():
            out.pair(self.prefix + nm + "(as_unfold)", f(x, kk, dd, ss, pp, pad, as_unfold=True), uref)
            out.pair(self.prefix + nm + "(2-D)", f(x, kk, dd, ss, pp, pad, as_unfold=False), cref)
        y = env.arr(self.prefix.replace(":", "_") + "y", (N, C * k[0] * k[1], Lw))
        y2 = cols2d(y)
        if env.sym:
            from ..symnum import array as ar
            y2 = ar.wrap(y2, np.float32)
        else:
            y2 = np.array(y2, dtype=y.dtype)
        fref = fold_ref(y, (N, C, H, W), k, s, p, d)
        gns = {"col2im": ct.col2im, "col2im_v2": ct.col2im_v2, "col2im_fast": ct.col2im_fast}
        for nm, f in gns.items():
            out.pair(self.prefix + nm + "(N x CkHkW x L)", f(y, (N, C, H, W), kk, dd, ss, pp), fref)
            out.pair(self.prefix + nm + "(2-D)", f(y2, (N, C, H, W), kk, dd, ss, pp), fref)
        # the documented option of computing the gather indices once and handing them back in: the indices stay what they were
        # (nothing a later call does may move them), and both routines give the same answers with them
        r_ = ct.im2col(x, kk, dd, ss, pp, pad, return_indices=True)
        if isinstance(r_, tuple) and len(r_) == 2:
            cols_i, idx_i = r_
            out.pair(self.prefix + "im2col(return_indices=True) values", cols_i, cref)
            out.pair(self.prefix + "col2im(col_indices=indices im2col returned)", ct.col2im(y2, (N, C, H, W), kk, dd, ss, pp, col_indices=idx_i), fref)
            out.pair(self.prefix + "im2col(col_indices=the same indices) once more", ct.im2col(x, kk, dd, ss, pp, pad, col_indices=idx_i), cref)
            out.pair(self.prefix + "col2im(col_indices=...) a second time", ct.col2im(y2, (N, C, H, W), kk, dd, ss, pp, col_indices=idx_i), fref)
        else:
            out.fact(self.prefix + "im2col(return_indices=True) returns (columns, indices)", False, "it returned %s" % type(r_).__name__)
        # the same option on the scatter side (round k): col2im(return_indices=True) returns (image, indices); the image is
        # the very image the plain call returns (cropped to the requested shape) and the indices serve im2col as well
        for lay, yy in (("N x CkHkW x L", y), ("2-D", y2)):
            r2_ = ct.col2im(yy, (N, C, H, W), kk, dd, ss, pp, return_indices=True)
            if isinstance(r2_, tuple) and len(r2_) == 2:
                img_i, idx2_i = r2_
                out.fact(self.prefix + "col2im(return_indices=True, %s) returns an image of the requested shape" % lay,
                         tuple(np.shape(img_i)) == (N, C, H, W), "shape %s, requested %s" % (tuple(np.shape(img_i)), (N, C, H, W)))
                if tuple(np.shape(img_i)) == (N, C, H, W):
                    out.pair(self.prefix + "col2im(return_indices=True, %s) values" % lay, img_i, fref)
                if lay == "2-D":
                    out.pair(self.prefix + "im2col(col_indices=indices col2im returned)", ct.im2col(x, kk, dd, ss, pp, pad, col_indices=idx2_i), cref)
            else:
                out.fact(self.prefix + "col2im(return_indices=True, %s) returns (image, indices)" % lay, False, "it returned %s" % type(r2_).__name__)
        # sliding-window extractor and its placement routine
        win = ct.extract_windows(x, kk, ss, pp, dd, pad_value=pad)
        wref = objarr((lH, lW, N, C, k[0], k[1]))
        for i in range(lH):
            for j in range(lW):
                for n in range(N):
                    for c in range(C):
                        for q, v in enumerate(win2d(x, n, c, i, j, k, s, p, d)):
                            wref[i, j, n, c, q // k[1], q % k[1]] = pad if v is PAD else v
        out.pair(self.prefix + "extract_windows", win, wref)
        wy = objarr((lH, lW, N, C, k[0], k[1]))
        for i in range(lH):
            for j in range(lW):
                for n in range(N):
                    for c in range(C):
                        for u in range(k[0]):
                            for v in range(k[1]):
                                wy[i, j, n, c, u, v] = y[n, c * k[0] * k[1] + u * k[1] + v, i * lW + j]
        if env.sym:
            from ..symnum import array as ar
            wy = ar.wrap(wy, np.float32)
        else:
            wy = np.array(wy, dtype=y.dtype)
        out.pair(self.prefix + "place_windows", ct.place_windows(wy, (N, C, H, W), kk, ss, pp, dd), fref)
        # adjointness <im2col(x), y> = <x, col2im(y)>  (zero padding) for the three implementation pairs
        for (n1, f), (n2, g) in zip(fns.items(), gns.items()):
            lhs = dot(f(x, kk, dd, ss, pp, 0, as_unfold=True), y)
            rhs = dot(x, g(y, (N, C, H, W), kk, dd, ss, pp))
            out.pair(self.prefix + "adjoint <%s(x),y> = <x,%s(y)>" % (n1, n2), [lhs], [rhs])
        # fold(unfold(x)) = count * x
        cnt = fold_ref(np.ones((N, C * k[0] * k[1], Lw)), (N, C, H, W), k, s, p, d)
        cx = objarr((N, C, H, W))
        for idx in np.ndindex(N, C, H, W):
            cx[idx] = cnt[idx] * x[idx]
        for (n1, f), (n2, g) in zip(fns.items(), gns.items()):
            back = g(f(x, kk, dd, ss, pp, 0, as_unfold=True), (N, C, H, W), kk, dd, ss, pp)
            out.pair(self.prefix + "%s(%s(x)) = count*x" % (n2, n1), back, cx)
        if sp.get("defaults"):
            # default dilation / stride / padding (1, 1, 0) left to the callee
            for nm, f in fns.items():
                out.pair(self.prefix + nm + " with default geometry", f(x, kk, as_unfold=True), unfold_ref(x, k, (1, 1), (0, 0), (1, 1), 0))
        return out


def enumerate_specs(tier):
    specs = []
    geos = geo2d("thorough")
    if tier == "quick":
        geos = geos[::3]
    for idx, (hw, k, s, p, d) in enumerate(geos):
        nc = [(1, 1), (2, 1), (1, 2)][idx % 3] if tier == "quick" else [(1, 1), (2, 2), (1, 2), (2, 1)][idx % 4]
        specs.append({"N": nc[0], "C": nc[1], "H": hw[0], "W": hw[1], "k": list(k), "s": list(s), "p": list(p), "d": list(d)})
    # sequences: a geometry followed, in the same process, by its transpose (same C, kernel, stride, dilation and number of
    # windows, different split into rows and columns) or by the same image with the padding moved to the other axis
    seq = []
    for idx, (hw, k, s, p, d) in enumerate(geos):
        if k[0] == k[1] and s[0] == s[1] and d[0] == d[1] and hw[0] != hw[1]:
            a = {"N": 1, "C": 1 + idx % 2, "H": hw[0], "W": hw[1], "k": list(k), "s": list(s), "p": list(p), "d": list(d)}
            b = dict(a, H=hw[1], W=hw[0], p=[p[1], p[0]])
            seq.append(dict(a, then=b))
    specs += seq[:: (4 if tier == "quick" else 1)]
    # non-contiguous images (with and without padding)
    for idx, (hw, k, s, p, d) in enumerate(geos[:: (5 if tier == "quick" else 2)]):
        specs.append({"N": 2, "C": 1, "H": hw[0], "W": hw[1], "k": list(k), "s": list(s), "p": list(p), "d": list(d),
                      "layout": "T" if idx % 2 else "S"})
    # the int form of the geometry arguments, and the defaults
    sq = [g for g in geos if all(t[0] == t[1] for t in g[1:])]
    for idx, (hw, k, s, p, d) in enumerate(sq[:: (3 if tier == "quick" else 1)]):
        specs.append({"N": 1 + idx % 2, "C": 1 + (idx // 2) % 2, "H": hw[0], "W": hw[1], "k": list(k), "s": list(s), "p": list(p),
                      "d": list(d), "argform": "int"})
    specs.append({"N": 1, "C": 2, "H": 3, "W": 4, "k": [2, 2], "s": [1, 1], "p": [0, 0], "d": [1, 1], "argform": "int", "defaults": True})
    specs.append({"N": 1, "C": 1, "H": 3, "W": 3, "k": [2, 2], "s": [1, 1], "p": [1, 1], "d": [1, 1], "argform": "npint"})
    specs.append({"N": 1, "C": 1, "H": 3, "W": 4, "k": [2, 2], "s": [2, 2], "p": [0, 0], "d": [1, 1], "argform": "npint"})
    specs.append({"N": 1, "C": 1, "H": 3, "W": 4, "k": [2, 1], "s": [1, 2], "p": [1, 0], "d": [1, 1], "argform": "nptuple"})
    specs.append({"N": 2, "C": 1, "H": 3, "W": 3, "k": [2, 3], "s": [1, 1], "p": [0, 0], "d": [1, 1], "defaults": True})
    return specs


def build(spec):
    return Case(spec)


def main(tier, seed):
    t0 = time.time()
    specs = enumerate_specs(tier)
    results = runner.run_pool(__name__, specs, tier, seed, chain=4)
    # E3: the output-size arithmetic shared by every window-based op, for symbolic sizes up to 10^6
    from .. import lemmas
    extra_lines, extra_viol = [], 0
    try:
        lem, _meta = lemmas.conv_size_lemma(tier)
    except Exception as e:  # noqa: BLE001
        lem = {"lemma": "conv output size", "error": repr(e), "queries": 0, "both_unsat": 0, "sat_indices": []}
    if lem.get("sat_indices") or lem.get("translator_mismatches"):
        extra_viol = 1
        path = runner.write_replay(PROP, {"sig": "lemma:conv output size", "module": None, "spec": lem},
                                   {"label": "lemma", "kind": "smt", "detail": str(lem)})
        extra_lines += ["VIOLATION property=%s replay=%s" % (PROP, path),
                        "  E3 lemma 'conv output size = floor((L+2p-d(k-1)-1)/s)+1' has a satisfiable negation: %s" % (lem,)]
    extra_lines.append("E3 lemma conv output size: %s/%s queries unsat in both solvers (z3 %ss, cvc5 %ss)" % (
        lem.get("both_unsat"), lem.get("queries"), lem.get("z3_s"), lem.get("cvc5_s")))
    return runner.finish(
        PROP, tier, seed, results, t0,
        bounds={"N,C": "<=2", "H,W": "<=4", "kernel": "<=2 quick / <=3 thorough per axis", "stride": "<=2", "padding": "<=1",
                "dilation": "<=2", "geometries": len(specs)},
        assumptions=["floats are reals", "geometry arguments are passed as tuples (the argument-form question belongs to C06)",
                     "pad value symbolic for im2col/extract_windows, 0 for the adjoint and count identities"],
        stubs=["numpy creators inside synapgrad return constant symbolic arrays"],
        extra_cov={"smt_lemma": lem}, extra_lines=extra_lines, extra_violations=extra_viol,
        rule="one configuration = (N,C,H,W) x kernel x stride x padding x dilation per axis with a non-empty output; "
             "image, column matrix and pad value symbolic")
