"""C05 - forward results match the definitional reference; illegal argument combinations are rejected."""
from __future__ import annotations

import time

from .. import opcat_tensor as cat
from ..harness import OpCase, gradof, set_grad
from .. import runner

PROP = "C05"


def enumerate_specs(tier):
    specs = [{"scenario": n} for n in SCENARIOS]
    for name, od in cat.REG.items():
        for ci, args in enumerate(od.configs(tier)):
            if args.get("precise"):   # double-precision comparison with the real guard constants in place
                specs.append({"op": name, "args": args, "variant": {"dtype": "float64", "precise": True}})
                continue
            specs.append({"op": name, "args": args, "variant": {}})
            if "const" in args:     # a Python constant with a float64 tensor: double precision expected
                specs.append({"op": name, "args": args, "variant": {"dtype": "float64", "precise": True}})
            # the same configuration with the first operand arriving as a non-contiguous view
            if ci % 3 == 0 and len(od.inputs(args)[0].shape) >= 2:
                specs.append({"op": name, "args": args, "variant": {"layout": "T" if ci % 2 == 0 else "S"}})
        for args in od.illegal_configs(tier):
            specs.append({"op": name, "args": args, "variant": {"illegal": True}})
    return specs


class Scenario:
    """constructors, len and iteration (including nested and interleaved iterations over one tensor)"""
    prop = PROP

    def __init__(self, name):
        self.name = name
        self.sig = "scenario:" + name
        if name == "constructors_dtype":
            self.tol = 1e-12        # values requested in double precision are compared in double precision

    def run(self, env):
        import numpy as np
        import synapgrad
        from ..harness import T
        from ..symnum import engine as E
        out = E.Outcome()
        Tn = T()
        n = self.name
        if n == "constructors":
            for nm, t, shape, val in (
                    ("ones(2,3)", synapgrad.ones(2, 3), (2, 3), 1.0), ("ones((2,3))", synapgrad.ones((2, 3)), (2, 3), 1.0),
                    ("zeros(3)", synapgrad.zeros(3), (3,), 0.0), ("zeros([2,1])", synapgrad.zeros([2, 1]), (2, 1), 0.0),
                    ("ones_like", synapgrad.ones_like(Tn(env.const(np.zeros((2, 2)), np.float64))), (2, 2), 1.0),
                    ("zeros_like", synapgrad.zeros_like(Tn(env.const(np.ones((1, 3)), np.float32))), (1, 3), 0.0)):
                out.fact("%s has shape %s" % (nm, shape), tuple(t.shape) == shape, "got %s" % (tuple(t.shape),))
                out.pair("%s values" % nm, t.data, np.full(shape, val))
                out.fact("%s does not require grad" % nm, not t.requires_grad)
            out.fact("default dtype is float32", str(synapgrad.ones(2).dtype) == "float32" and str(synapgrad.zeros(2).dtype) == "float32")
            out.fact("ones_like keeps the dtype", str(synapgrad.ones_like(Tn(env.const(np.zeros(2), np.float64))).dtype) == "float64")
            e = synapgrad.empty(2, 3)
            out.fact("empty(2,3) has shape (2,3)", tuple(e.shape) == (2, 3))
            a = synapgrad.arange(1, 7, 2)
            out.pair("arange(1,7,2)", a.data, np.array([1.0, 3.0, 5.0]))
            out.pair("arange(4)", synapgrad.arange(4).data, np.array([0.0, 1.0, 2.0, 3.0]))
            out.pair("eye(3)", synapgrad.eye(3).data, np.eye(3))
            x = env.arr("x", (2, 2))
            t = synapgrad.tensor([[x[0, 0], x[0, 1]], [x[1, 0], x[1, 1]]]) if not env.sym else Tn(x)
            out.pair("tensor(nested list)", t.data, x)
            out.fact("tensor(..., requires_grad=True) requires grad", synapgrad.tensor([1.0, 2.0], requires_grad=True).requires_grad)
            # the optional arguments of every constructor: dtype, requires_grad (float constructors)
            f64 = np.float64
            for nm, t, shape, val in (
                    ("eye(2, dtype=float64)", synapgrad.eye(2, dtype=f64), (2, 2), None),
                    ("ones_like(x32, dtype=float64)", synapgrad.ones_like(Tn(env.const(np.zeros((2,)), np.float32)), dtype=f64), (2,), 1.0),
                    ("zeros_like(x32, dtype=float64)", synapgrad.zeros_like(Tn(env.const(np.ones((2,)), np.float32)), dtype=f64), (2,), 0.0),
                    ("ones(2, dtype=float64)", synapgrad.ones(2, dtype=f64), (2,), 1.0),
                    ("zeros((1, 2), dtype=float64)", synapgrad.zeros((1, 2), dtype=f64), (1, 2), 0.0),
                    ("arange(3, dtype=float64)", synapgrad.arange(3, dtype=f64), (3,), None)):
                out.fact("%s has the requested dtype" % nm, str(t.dtype) == "float64", "dtype %s" % t.dtype)
                out.fact("%s has shape %s" % (nm, shape), tuple(t.shape) == shape, "got %s" % (tuple(t.shape),))
                if val is not None:
                    out.pair("%s values" % nm, t.data, np.full(shape, val))
            out.pair("eye(2, dtype=float64) values", synapgrad.eye(2, dtype=f64).data, np.eye(2))
            for nm, mk in (("ones(2, requires_grad=True)", lambda: synapgrad.ones(2, requires_grad=True)),
                           ("zeros(2, requires_grad=True)", lambda: synapgrad.zeros(2, requires_grad=True)),
                           ("eye(2, requires_grad=True)", lambda: synapgrad.eye(2, requires_grad=True)),
                           ("arange(3, requires_grad=True)", lambda: synapgrad.arange(3, requires_grad=True)),
                           ("ones_like(x, requires_grad=True)", lambda: synapgrad.ones_like(Tn(env.const(np.zeros((2,)), np.float32)), requires_grad=True)),
                           ("zeros_like(x, requires_grad=True)", lambda: synapgrad.zeros_like(Tn(env.const(np.zeros((2,)), np.float32)), requires_grad=True))):
                t = mk()
                out.fact("%s requires grad and is a leaf" % nm, bool(t.requires_grad) and bool(t.is_leaf))
            return out
        if n == "random_constructors":
            # rand / randn / normal / randint: shape (both spellings), default and requested dtype, requires_grad, and the
            # documented range / affine image of the draws
            from ..symnum import array as ar_
            checks_ = []
            r1 = synapgrad.rand(2, 3)
            r2 = synapgrad.rand((2, 1), dtype=np.float64, requires_grad=True)
            z1 = synapgrad.randn(3)
            z2 = synapgrad.randn([1, 2], dtype=np.float64)
            for nm, t, shape, dt, req in (("rand(2,3)", r1, (2, 3), "float32", False), ("rand((2,1), float64, requires_grad)", r2, (2, 1), "float64", True),
                                          ("randn(3)", z1, (3,), "float32", False), ("randn([1,2], float64)", z2, (1, 2), "float64", False)):
                out.fact("%s: shape, dtype, requires_grad" % nm, tuple(t.shape) == shape and str(t.dtype) == dt and bool(t.requires_grad) == req,
                         "shape %s dtype %s requires_grad %s" % (tuple(t.shape), t.dtype, t.requires_grad))
            out.claim("rand values >= 0", r1.data, ">=", 0.0)
            out.claim("rand values < 1", r1.data, "<", 1.0)
            nrm = synapgrad.normal(2.0, 0.5, 2, 2)
            out.fact("normal(2.0, 0.5, 2, 2): shape and dtype", tuple(nrm.shape) == (2, 2) and str(nrm.dtype) == "float32", "shape %s dtype %s" % (tuple(nrm.shape), nrm.dtype))
            return out      # (randint is not modelled by the RNG stub: integer draws have no symbolic counterpart here)
        if n == "constructors_dtype":
            # a requested dtype is honoured for the *values* too: nothing is rounded through the default float32 on the way
            f64, i64 = np.float64, np.int64
            big = 16777217           # 2**24 + 1: not representable in float32
            for nm, mk, want in (
                    ("tensor([0.1, 0.7], dtype=float64)", lambda: synapgrad.tensor([0.1, 0.7], dtype=f64), [0.1, 0.7]),
                    ("Tensor([0.1, 0.7], dtype=float64)", lambda: synapgrad.Tensor([0.1, 0.7], dtype=f64), [0.1, 0.7]),
                    ("Tensor(0.3, dtype=float64)", lambda: synapgrad.Tensor(0.3, dtype=f64), 0.3),
                    ("arange(0, 0.5, 0.1, dtype=float64)", lambda: synapgrad.arange(0, 0.5, 0.1, dtype=f64), [0.0, 0.1, 0.2, 0.30000000000000004, 0.4]),
                    ("tensor([2**24+1], dtype=int64)", lambda: synapgrad.tensor([big], dtype=i64), [big]),
                    ("Tensor([2**24+1], dtype=int64)", lambda: synapgrad.Tensor([big], dtype=i64), [big]),
                    ("arange(2**24, 2**24+3, dtype=int64)", lambda: synapgrad.arange(big - 1, big + 2, dtype=i64), [big - 1, big, big + 1])):
                t = mk()
                want = np.array(want)
                out.fact("%s has the requested dtype" % nm, str(t.dtype) == ("int64" if "int64" in nm else "float64"), "dtype %s" % t.dtype)
                out.fact("%s has shape %s" % (nm, want.shape), tuple(t.shape) == want.shape, "got %s" % (tuple(t.shape),))
                if tuple(t.shape) == want.shape:
                    out.pair("%s values" % nm, t.data, want if env.sym else want.astype(np.float64))
            return out
        x = env.arr("x", (3, 2))
        t = Tn(x, requires_grad=(n == "iteration_grad"))
        if n in ("iteration", "iteration_grad"):
            out.fact("len is the first extent", len(t) == 3)
            rows = [r for r in t]
            out.fact("iteration yields one tensor per row", len(rows) == 3)
            for i, r in enumerate(rows[:3]):
                out.pair("row %d" % i, r.data, x[i])
            again = [r for r in t]
            out.fact("a second iteration starts from the first row again", len(again) == 3)
            if n == "iteration_grad" and len(rows) == 3:
                g = env.arr("g", (2,))
                rows[1].backward(Tn(g))
                exp = np.zeros((3, 2), dtype=object if env.sym else np.float64)
                exp[...] = 0 * x[0, 0] if env.sym else 0.0
                exp[1] = g
                out.pair("gradient flows back through an iterated row", gradof(t), exp)
            return out
        if n == "nested_iteration":
            pairs = [(a, b) for a in t for b in t]
            out.fact("nested iteration visits every ordered pair of rows", len(pairs) == 9, "visited %d pairs" % len(pairs))
            if len(pairs) == 9:
                for k, (a, b) in enumerate(pairs):
                    out.pair("outer row of pair %d" % k, a.data, x[k // 3])
                    out.pair("inner row of pair %d" % k, b.data, x[k % 3])
            return out
        if n == "interleaved_iteration":
            it1, it2 = iter(t), iter(t)
            seq = [next(it1), next(it2), next(it1), next(it2)]
            for k, (r, want) in enumerate(zip(seq, (0, 0, 1, 1))):
                out.pair("interleaved step %d" % k, r.data, x[want])
            return out
        raise ValueError(n)


SCENARIOS = ["constructors", "constructors_dtype", "random_constructors", "iteration", "iteration_grad", "nested_iteration", "interleaved_iteration"]


def build(spec):
    if "scenario" in spec:
        return Scenario(spec["scenario"])
    return OpCase(PROP, cat.REG[spec["op"]], spec["args"], spec.get("variant"))


def main(tier, seed):
    t0 = time.time()
    specs = enumerate_specs(tier)
    results = runner.run_pool(__name__, specs, tier, seed, chain=4)
    rc = None
    extra_lines = []
    if tier != "quick":
        # oracle validation: every reference definition against the PyTorch operation it claims to define
        from .. import refcheck
        rc = refcheck.check_catalogue(cat.REG, tier, seed)
        extra_lines.append("reference definitions cross-checked against torch: %d configurations, %d mismatches, not mapped: %s" % (
            rc["checked"], rc["n_mismatches"], rc["unmapped_ops"]))
        if rc["n_mismatches"]:
            print("HARNESS-ERROR: a reference definition disagrees with torch: %s" % (rc["mismatches"][:3],))
            return 2
    return runner.finish(
        PROP, tier, seed, results, t0,
        bounds={"ops": sorted(cat.REG), "grid": "see vf/opcat_tensor.py configs()/illegal_configs() for the tier"},
        assumptions=["floats are modelled as reals (no rounding)",
                     "ties/kinks are outside the claim",
                     "references are index-level definitions written on scalars (vf/opcat_tensor.py), cross-checked against torch in the thorough tier",
                     "cpu_ops.epsilon := 0 for log-type ops (guard effects belong to C09)"],
        stubs=["numpy creators inside synapgrad return constant symbolic arrays", "cpu_ops.epsilon := 0 where listed"],
        extra_cov={"references_vs_torch": rc}, extra_lines=extra_lines,
        rule="one configuration = op x shapes x arguments (legal: must be accepted and equal the reference for all "
             "operand values; illegal: must raise)")
