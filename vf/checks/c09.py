"""C09 - stability-critical ops stay finite and accurate for |x| <= 1e4 (extended-real mode, DESIGN section C09).

The real kernels run on symbolic scalars in a model with exact real arithmetic + IEEE special values + the dtype's exp
overflow/underflow thresholds.  (O1) every output and gradient is finite on every feasible path; (O3) the computed term
stays within single-precision tolerance of the exact mathematical value written with the same function atoms - decided by
z3 under sound ground axioms for exp/log (landmarks, tangents, monotonicity, secants).  A `sat` is only a candidate: it is
replayed in float32 and float64 on the real code against an mpmath evaluation of the definition."""
from __future__ import annotations

import itertools
import math
import time

import numpy as np

from ..harness import T, sig_of, gradof, set_grad
from ..symnum import engine as E
from ..symnum import scalar as sc
from ..symnum import array as ar
from ..symnum import xr as XRM
from ..symnum.scalar import S, CTX, mk
from .. import runner

PROP = "C09"
BOUND = 10000
ALPHA = 1.6732632423543772848170429916717
SCALE = 1.0507009873554804934193349852946


def rexp(x):
    """mathematically exact exp as a finite atom (no thresholds): same atom the code has on its finite branch"""
    n = sc.lift(x)
    if sc.isc(n, 0):
        return S(sc.const(1))
    return S(mk("exp", (n,)))


def rlog(x):
    n = sc.lift(x)
    if sc.isc(n, 1):
        return S(sc.const(0))
    return S(mk("log", (n,)))


def rtanh(x):
    n = sc.lift(x)
    if sc.isc(n, 0):
        return S(sc.const(0))
    return S(mk("tanh", (n,)))


def special(v):
    return isinstance(v, S) and v.n.op in sc.SPECIAL


def sabs(x):
    return x if bool(x >= 0) else -x


class Case:
    prop = PROP
    xr_axioms = True

    def __init__(self, spec):
        self.spec = spec
        self.sig = sig_of(spec["op"], {k: v for k, v in spec.items() if k != "op"}, None)
        self.xr_marks = (-110, 95) if spec["dtype"] == "float32" else (-760, 720)

    # ------------------------------------------------------------------ the op under test, through the public API
    def forward(self, x, extra):
        import synapgrad.nn.functional as NF
        from synapgrad import nn
        op = self.spec["op"]
        if op in ("sigmoid", "tanh", "selu"):
            return getattr(NF, op)(x)
        if op == "softmax":
            return NF.softmax(x, -1)
        if op == "log_softmax":
            return NF.log_softmax(x, -1)
        if op == "cross_entropy":
            y = T()(np.array(self.spec["labels"], dtype=np.int32))
            if self.spec.get("via") == "M":
                return nn.CrossEntropyLoss(reduction="none")(x, y)
            return NF.cross_entropy(x, y)
        if op == "bce_with_logits":
            if self.spec.get("via") == "M":
                return nn.BCEWithLogitsLoss(reduction="none")(x, extra["t"])
            return NF.binary_cross_entropy_with_logits(x, extra["t"])
        raise ValueError(op)

    # ------------------------------------------------------------------ exact values with the same atoms (symbolic)
    def exact(self, xs, gs, ts):
        """xs: array of S; -> (outputs list, grads list) as S terms; mathematically exact"""
        op = self.spec["op"]
        shape = xs.shape
        flat = list(xs.reshape(-1))
        g = list(gs.reshape(-1))
        if op == "sigmoid":
            s_ = [1 / (1 + rexp(0 - x)) for x in flat]
            return s_, [gi * si * (1 - si) for gi, si in zip(g, s_)]
        if op == "tanh":
            t_ = [rtanh(x) for x in flat]
            return t_, [gi * (1 - ti * ti) for gi, ti in zip(g, t_)]
        if op == "selu":
            outs, grads = [], []
            for x, gi in zip(flat, g):
                if bool(x > 0):
                    outs.append(SCALE * x)
                    grads.append(gi * SCALE)
                else:
                    outs.append(SCALE * (ALPHA * (rexp(x) - 1)))
                    grads.append(gi * (SCALE * (ALPHA * rexp(x))))
            return outs, grads
        if op in ("softmax", "log_softmax", "cross_entropy"):
            rows = xs.reshape(-1, shape[-1])
            grow = gs.reshape(rows.shape) if op != "cross_entropy" else None
            outs, grads = [], []
            for r in range(rows.shape[0]):
                row = list(rows[r])
                m = row[ar._pick(row, True)]
                e = [rexp(v - m) for v in row]
                tot = e[0]
                for v in e[1:]:
                    tot = tot + v
                sm = [v / tot for v in e]
                if op == "softmax":
                    gr = list(grow[r])
                    dot = sum((a * b for a, b in zip(gr[1:], sm[1:])), gr[0] * sm[0])
                    outs += sm
                    grads += [si * (gi - dot) for si, gi in zip(sm, gr)]
                elif op == "log_softmax":
                    gr = list(grow[r])
                    sg = sum(gr[1:], gr[0])
                    lse = rlog(tot)
                    outs += [(v - m) - lse for v in row]
                    grads += [gi - si * sg for si, gi in zip(sm, gr)]
                else:
                    y = self.spec["labels"][r]
                    outs.append(rlog(tot) - (row[y] - m))
                    grads += [(si - (1 if k == y else 0)) * g[r] for k, si in enumerate(sm)]
            return outs, grads
        if op == "bce_with_logits":
            t = list(ts.reshape(-1))
            outs, grads = [], []
            for x, ti, gi in zip(flat, t, g):
                if bool(x > 0):
                    e = rexp(0 - x)
                    outs.append(x - x * ti + rlog(1 + e))
                    grads.append(gi * (1 / (1 + e) - ti))
                else:
                    e = rexp(x)
                    outs.append(0 - x * ti + rlog(e + 1))
                    grads.append(gi * (e / (1 + e) - ti))
            return outs, grads
        raise ValueError(op)

    def run(self, env):
        sp = self.spec
        Tn = T()
        out = E.Outcome()
        dt = np.dtype(sp["dtype"])
        shape = tuple(sp["shape"])
        prev = (CTX.xr, CTX.rewrite)
        if env.sym:
            CTX.xr = XRM.XR(sp["dtype"])
            CTX.rewrite = False
        try:
            x_arr = env.arr("x", shape, dt, lo=-BOUND, hi=BOUND)
            if sp.get("zero"):
                # the first input is exactly 0 (a constant, not a value the solver may move): the point where two-branch
                # "stable" formulas meet - measure zero for the solver, everyday for data
                if env.sym:
                    raw = x_arr.view(np.ndarray)
                    raw[(0,) * raw.ndim] = S(sc.const(0), np.dtype(dt))
                else:
                    x_arr[(0,) * x_arr.ndim] = 0.0
            extra = {}
            t_arr = None
            if sp["op"] == "bce_with_logits":
                t_arr = env.arr("t", shape, dt, lo=0, hi=1)
                extra["t"] = Tn(t_arr)
            x = Tn(x_arr, requires_grad=True)
            o = self.forward(x, extra)
            g_arr = env.arr("g", o.shape, dt, lo=-BOUND, hi=BOUND)
            o.backward(Tn(g_arr))
            outs = o.data
            grads = gradof(x)
            if env.sym:
                of = list(outs.view(np.ndarray).reshape(-1))
                gf = list(grads.view(np.ndarray).reshape(-1))
                bad_o = [i for i, v in enumerate(of) if special(v)]
                bad_g = [i for i, v in enumerate(gf) if special(v)]
                out.fact("every output is finite", not bad_o, "output element(s) %s: %s" % (bad_o, [of[i].n.op + str(of[i].n.val or "") for i in bad_o]))
                out.fact("every gradient is finite", not bad_g, "gradient element(s) %s: %s" % (bad_g, [gf[i].n.op + str(gf[i].n.val or "") for i in bad_g]))
                ex_o, ex_g = self.exact(x_arr.view(np.ndarray), g_arr.view(np.ndarray), None if t_arr is None else t_arr.view(np.ndarray))
                mag = S(sc.const(1))
                for v in x_arr.view(np.ndarray).reshape(-1):
                    mag = mag + sabs(v)
                gmag = mag
                for v in g_arr.view(np.ndarray).reshape(-1):
                    gmag = gmag + sabs(v)
                tol_o = mag * 1e-5
                tol_g = gmag * 1e-5
                for name, got, exp, tol in (("output", of, ex_o, tol_o), ("gradient", gf, ex_g, tol_g)):
                    for i, (a, b) in enumerate(zip(got, exp)):
                        if special(a):
                            continue
                        out.claim("sym:%s[%d] - exact <= 1e-5 * (1 + sum|inputs|)" % (name, i), [a - b], "<=", [tol])
                        out.claim("sym:%s[%d] - exact >= -1e-5 * (1 + sum|inputs|)" % (name, i), [a - b], ">=", [0 - tol])
            else:
                out.fact("every output is finite", bool(np.all(np.isfinite(outs))), "outputs %s" % np.asarray(outs).tolist())
                out.fact("every gradient is finite", bool(np.all(np.isfinite(grads))), "gradients %s" % np.asarray(grads).tolist())
            out.notes["obs:out"] = outs
            out.notes["obs:grad"] = grads
        finally:
            CTX.xr, CTX.rewrite = prev
        return out

    # ------------------------------------------------------------------ replay: real float code vs mpmath
    def replay(self, cand):
        import mpmath
        mpmath.mp.dps = 50
        pt = cand["point"]
        sp = self.spec
        shape = tuple(sp["shape"])
        n = int(np.prod(shape, dtype=int)) if shape else 1
        xs = [pt[k] for k in sorted((k for k in pt if k == "x" or k.startswith("x_")), key=_key)]
        if sp.get("zero"):
            names_ = ["x"] if n == 1 and not shape else ["x" + "".join("_%d" % i for i in idx) for idx in np.ndindex(*shape)]
            xs = [0.0 if k == 0 else pt.get(nm_, 0.0) for k, nm_ in enumerate(names_)]
        ts = [pt[k] for k in sorted((k for k in pt if k == "t" or k.startswith("t_")), key=_key)]
        gs = [pt[k] for k in sorted((k for k in pt if k == "g" or k.startswith("g_")), key=_key)]
        msgs = []
        for dtname in dict.fromkeys([sp["dtype"], "float32", "float64"]):
            case = Case(dict(sp, dtype=dtname))
            o, err = E.run_plain(case, pt, "plain")
            if err is not None:
                msgs.append("%s: real code raised %s" % (dtname, err))
                continue
            got_o = np.asarray(o.notes["obs:out"], dtype=np.float64).reshape(-1)
            got_g = np.asarray(o.notes["obs:grad"], dtype=np.float64).reshape(-1)
            # the inputs the float code actually saw are the rounded ones
            xr_ = [float(np.dtype(dtname).type(v)) for v in xs]
            gr_ = [float(np.dtype(dtname).type(v)) for v in gs]
            tr_ = [float(np.dtype(dtname).type(v)) for v in ts]
            eo, eg = _mp_exact(sp, xr_, gr_, tr_)
            tol_o = 1e-5 * (1 + sum(abs(v) for v in xr_))
            tol_g = 1e-5 * (1 + sum(abs(v) for v in xr_) + sum(abs(v) for v in gr_))
            for name, got, exp, tol in (("output", got_o, eo, tol_o), ("gradient", got_g, eg, tol_g)):
                for i, (a, b) in enumerate(zip(got, exp)):
                    if not math.isfinite(a):
                        msgs.append("%s %s[%d] = %r (exact %.6g)" % (dtname, name, i, float(a), float(b)))
                    elif abs(a - float(b)) > tol + 4e-6 * abs(float(b)):
                        msgs.append("%s %s[%d] = %.8g, exact %.8g (tolerance %.3g)" % (dtname, name, i, a, float(b), tol))
            if msgs and dtname == sp["dtype"]:
                break
        if msgs:
            return True, "; ".join(msgs[:4])
        return False, "real float32/float64 code is finite and within tolerance of the mpmath value at this point"


def _key(k):
    return [int(p) for p in k.split("_")[1:]]


def _mp_exact(sp, xs, gs, ts):
    import mpmath as mp
    op = sp["op"]
    X = [mp.mpf(v) for v in xs]
    G = [mp.mpf(v) for v in gs]
    if op == "sigmoid":
        s_ = [1 / (1 + mp.e ** (-x)) for x in X]
        return s_, [g * s * (1 - s) for g, s in zip(G, s_)]
    if op == "tanh":
        t_ = [mp.tanh(x) for x in X]
        return t_, [g * (1 - t * t) for g, t in zip(G, t_)]
    if op == "selu":
        a, s = mp.mpf(ALPHA), mp.mpf(SCALE)
        return ([s * x if x > 0 else s * a * (mp.e ** x - 1) for x in X],
                [g * s if x > 0 else g * s * a * mp.e ** x for x, g in zip(X, G)])
    if op in ("softmax", "log_softmax", "cross_entropy"):
        C = sp["shape"][-1]
        rows = [X[i:i + C] for i in range(0, len(X), C)]
        outs, grads = [], []
        for r, row in enumerate(rows):
            m = max(row)
            e = [mp.e ** (v - m) for v in row]
            tot = sum(e)
            sm = [v / tot for v in e]
            if op == "softmax":
                gr = G[r * C:(r + 1) * C]
                dot = sum(a * b for a, b in zip(gr, sm))
                outs += sm
                grads += [s * (g - dot) for s, g in zip(sm, gr)]
            elif op == "log_softmax":
                gr = G[r * C:(r + 1) * C]
                outs += [(v - m) - mp.log(tot) for v in row]
                grads += [g - s * sum(gr) for s, g in zip(sm, gr)]
            else:
                y = sp["labels"][r]
                outs.append(mp.log(tot) - (row[y] - m))
                grads += [(s - (1 if k == y else 0)) * G[r] for k, s in enumerate(sm)]
        return outs, grads
    if op == "bce_with_logits":
        Tt = [mp.mpf(v) for v in ts]
        outs, grads = [], []
        for x, t, g in zip(X, Tt, G):
            outs.append(max(x, 0) - x * t + mp.log(1 + mp.e ** (-abs(x))))
            grads.append(g * (1 / (1 + mp.e ** (-x)) - t))
        return outs, grads
    raise ValueError(op)


def enumerate_specs(tier):
    specs = []
    dts = ["float32", "float64"]
    for dt in dts:
        for op in ("sigmoid", "tanh", "selu"):
            specs.append({"op": op, "dtype": dt, "shape": [1]})
        for op in ("sigmoid", "tanh", "selu"):
            specs.append({"op": op, "dtype": dt, "shape": [1], "zero": True})
        specs.append({"op": "bce_with_logits", "dtype": dt, "shape": [1], "via": "F", "zero": True})
        for op in ("softmax", "log_softmax"):
            specs.append({"op": op, "dtype": dt, "shape": [2], "zero": True})
        for op in ("softmax", "log_softmax"):
            # rows of 2 logits in both tiers.  Rows of 3 were part of the thorough tier and never came to a verdict: softmax
            # did not finish its path exploration within 90 minutes, log_softmax stopped after 241 paths on solver models that
            # floating point cannot realise (inconclusive both, in every pass) - they are outside the bound now, and said so
            specs.append({"op": op, "dtype": dt, "shape": [2]})
            # two rows whose maxima may be far apart (each row must be shifted by its own maximum)
            specs.append({"op": op, "dtype": dt, "shape": [2, 1]})
        for c in ((2,) if tier == "quick" else (2, 3)):
            for lab in range(c):
                specs.append({"op": "cross_entropy", "dtype": dt, "shape": [1, c], "labels": [lab], "via": "F"})
            specs.append({"op": "cross_entropy", "dtype": dt, "shape": [1, c], "labels": [c - 1], "via": "M"})
        if tier == "quick":
            specs.append({"op": "cross_entropy", "dtype": dt, "shape": [2, 1], "labels": [0, 0], "via": "F"})
        else:
            specs.append({"op": "cross_entropy", "dtype": dt, "shape": [2, 2], "labels": [0, 1], "via": "F"})
        specs.append({"op": "bce_with_logits", "dtype": dt, "shape": [1], "via": "F"})
        specs.append({"op": "bce_with_logits", "dtype": dt, "shape": [1], "via": "M"})
    return specs


def build(spec):
    return Case(spec)


def main(tier, seed):
    t0 = time.time()
    specs = enumerate_specs(tier)
    results = runner.run_pool(__name__, specs, tier, seed, limit=300 if tier == "quick" else 3000,
                              optkw={"max_paths": 64 if tier == "quick" else 1024})
    return runner.finish(
        PROP, tier, seed, results, t0,
        bounds={"inputs and upstream gradients": "[-1e4, 1e4]", "targets": "[0, 1]", "shapes": "elementwise ops on 1 element, "
                "softmax / log_softmax on one row of 2 logits and on two rows of 1; cross-entropy on rows of 2 (quick) / 2-3 (thorough). "
                "OUTSIDE: softmax / log_softmax on rows of 3 or more logits (tried in the thorough tier: no verdict within 90 minutes)",
                "dtypes": ["float32", "float64"]},
        assumptions=["exact real arithmetic + IEEE inf/nan + exp overflow/underflow thresholds of the dtype; ROUNDING IS NOT MODELLED "
                     "(cancellation such as 1 - tanh^2 near saturation is outside the claim)",
                     "thresholds: exp(u) = inf for u >= 88.7229 / 709.7828, 0 for u <= -103.973 / -745.134; inside the 1e-3 wide "
                     "bands next to them the finite branch is taken",
                     "accuracy obligation: |computed - exact| <= 1e-5 * (1 + sum|x| [+ sum|g| for gradients]); exact = the "
                     "mathematical definition written with the same exp/log/tanh atoms",
                     "z3 decides the accuracy claims under ground axioms that every real exp/log satisfies (positivity, landmark "
                     "bounds from mpmath, tangent at 0, pairwise monotonicity, log secant bound); unsat is sound, sat is a "
                     "candidate that must reproduce on the real float code against mpmath",
                     "polynomial overflow is excluded by the input bound"],
        stubs=["numpy creators inside synapgrad return constant symbolic arrays"],
        rule="one configuration = op x dtype x row length x label; inputs, targets and upstream gradients symbolic in their boxes")
