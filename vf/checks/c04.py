"""C04 - leaf gradients accumulate exactly across any history of graph constructions, backward calls and
resets; nothing left over on a non-leaf tensor leaks into a later call; unreachable tensors are untouched.

(i)  inductive step from an arbitrary symbolic pre-state (leaf buffers absent/arbitrary, interior buffers
     absent/arbitrary, retain flags arbitrary): one backward must add exactly the true VJP to every leaf.
(ii) bounded histories over the real API with a running symbolic sum as reference."""
from __future__ import annotations

import itertools
import random
import time

import numpy as np

from ..harness import T, sig_of, snapshot, gradof, set_grad, children_of
from ..symnum import engine as E
from ..symnum import scalar as sc
from ..symnum import diff
from ..symnum.scalar import S
from .. import runner

PROP = "C04"
SHAPE = (2,)


def template(k, a, b, prev=None):
    """-> list of (name, tensor) in creation order; the last one is the template's root"""
    if k == 0:
        m = a * b
        r = m + a
        return [("m", m), ("r", r)]
    if k == 1:
        m = (a * 0.5).exp()
        n = m * b
        r = n.sum()
        return [("m", m), ("n", n), ("r", r)]
    if k == 2:        # reuse of an earlier result inside a new graph
        q = prev * a
        r = q + b
        return [("q", q), ("r", r)]
    raise ValueError(k)


def vjp_terms(node_tensor, g, leaf_arrays):
    """true gradient of sum(g * node) w.r.t. every leaf element, by differentiating the composed scalar terms"""
    outs, _ = E.flat_nodes(node_tensor.data)
    gs, _ = E.flat_nodes(g)
    L = diff.inner(gs, outs)
    res = []
    for arr in leaf_arrays:
        wrt, _ = E.flat_nodes(arr)
        res.append(diff.grad(L, wrt))
    return res


def fd_terms(case_forward, point_names):
    raise NotImplementedError


# ------------------------------------------------------------------------------------------ (i) inductive step
class StepCase:
    prop = PROP

    def __init__(self, spec):
        self.spec = spec
        self.sig = sig_of("step", spec, None)

    def run(self, env):
        Tn = T()
        sp = self.spec
        out = E.Outcome()
        a_arr, b_arr = env.arr("a", SHAPE), env.arr("b", SHAPE)
        a, b = _leaf(Tn, a_arr, sp.get("computed_leaf")), Tn(b_arr, requires_grad=True)
        import contextlib
        import synapgrad
        # retain_all: the graph is computed, and differentiated, under retain_grads (every intermediate result keeps its gradient)
        with (synapgrad.retain_grads() if sp["retain_all"] else contextlib.nullcontext()):
            nodes = template(sp["template"], a, b)
        root = nodes[sp["root"]][1]
        pre = {}
        for name, t, mode in (("a", a, sp["pre_a"]), ("b", b, sp["pre_b"])):
            if mode == "sym":
                pre[name] = env.arr("pre_" + name, SHAPE)
                set_grad(t, snapshot(pre[name]))
        for i, (name, t) in enumerate(nodes):
            mode = sp["pre_nodes"][i]
            if mode != "absent":
                buf = env.arr("stale_%s" % name, t.shape)
                set_grad(t, snapshot(buf))
            if mode == "retained":
                t.retain_grad()
        with (synapgrad.retain_grads() if sp["retain_all"] else contextlib.nullcontext()):
            g = env.arr("g", root.shape, lo=-2, hi=2)
            root.backward(Tn(g))
        if env.sym:
            ga, gb = vjp_terms(root, g, [a_arr, b_arr])
            for name, t, true in (("a", a, ga), ("b", b, gb)):
                exp = [S(x) for x in true]
                if name in pre:
                    exp = [e + p for e, p in zip(exp, pre[name].view(np.ndarray).reshape(-1))]
                reach = _reaches(root, t)
                if not reach and name not in pre:
                    out.fact("unreached leaf %s stays without gradient" % name, gradof(t) is None)
                elif gradof(t) is None:
                    out.fact("leaf %s has a gradient" % name, False, "no .grad after backward")
                else:
                    out.pair("sym:leaf %s = previous buffer + true gradient of this call" % name, gradof(t),
                             np.array(exp, dtype=object).reshape(t.shape))
        out.notes["obs:grad_a"] = gradof(a) if gradof(a) is not None else np.zeros(0)
        out.notes["obs:grad_b"] = gradof(b) if gradof(b) is not None else np.zeros(0)
        return out

    def replay(self, cand):
        return _replay_fd(self, cand)


def _leaf(Tn, arr, computed):
    """a leaf either created directly, or computed from tensors that do not require grad and flagged afterwards
    (it keeps its operands as children but has no backward function: still a leaf)"""
    if not computed:
        return Tn(arr, requires_grad=True)
    t = Tn(arr) * 1.0
    t.requires_grad = True
    return t


def _reaches(root, t):
    st = [root]
    seen = set()
    while st:
        x = st.pop()
        if x is t:
            return True
        if id(x) in seen:
            continue
        seen.add(id(x))
        st.extend(children_of(x))
    return False


# ------------------------------------------------------------------------------------------ (ii) histories
ACTIONS = ["B0", "B1", "BR", "K0", "K1", "K2", "K3", "K4", "KL", "R0", "R2", "E", "X", "Za", "ZM", "ZO"]


class HistCase:
    prop = PROP

    def __init__(self, spec):
        self.spec = spec
        self.sig = sig_of("history", spec, None)

    def run(self, env):
        import synapgrad
        from synapgrad import nn, optim
        Tn = T()
        out = E.Outcome()
        a_arr, b_arr = env.arr("a", SHAPE), env.arr("b", SHAPE)
        a = nn.Parameter(_leaf(Tn, a_arr, self.spec.get("computed_leaf")))
        b = nn.Parameter(Tn(b_arr, requires_grad=True))

        class M(nn.Module):
            def __init__(s):
                super().__init__()
                s.a = a
                s.b = b
        mod = M()
        opt = optim.SGD([a, b], lr=0.1)
        leaves = {"a": a, "b": b}
        acc = {"a": None, "b": None}          # running sum of true gradients since the last reset (None = no buffer)
        reg = []                               # every non-leaf tensor created so far
        ctx_stack = []
        ng = 0
        maybe = set()
        try:
            for step, act in enumerate(self.spec["history"]):
                if act in ("B0", "B1"):
                    reg += [t for _, t in template(int(act[1]), a, b)]
                elif act == "BR":
                    if not reg:
                        out.rejected = "history not applicable"
                        return out
                    reg += [t for _, t in template(2, a, b, prev=reg[0])]
                elif act == "KL":       # a leaf used as the root: the seed is accumulated into it, nothing else is touched
                    g = env.arr("g%d" % ng, b.shape, lo=-2, hi=2)
                    ng += 1
                    others = [(j, t, None if gradof(t) is None else snapshot(gradof(t))) for j, t in enumerate(reg)]
                    a_before = None if gradof(a) is None else snapshot(gradof(a))
                    b.backward(Tn(g))
                    if env.sym:
                        cur = acc["b"] if acc["b"] is not None else [S(sc.const(0))] * 2
                        acc["b"] = [c + gi for c, gi in zip(cur, g.view(np.ndarray).reshape(-1))]
                    for j, t, snap in others:
                        if snap is None:
                            out.fact("tensor %d untouched by backward from a leaf (action %d)" % (j, step), gradof(t) is None)
                        else:
                            out.pair("tensor %d untouched by backward from a leaf (action %d)" % (j, step),
                                     snapshot(gradof(t)) if gradof(t) is not None else np.zeros(0), snap)
                    if a_before is None:
                        out.fact("the other leaf untouched by backward from a leaf (action %d)" % step, gradof(a) is None)
                    else:
                        out.pair("the other leaf untouched by backward from a leaf (action %d)" % step, snapshot(gradof(a)), a_before)
                elif act[0] == "K":
                    i = int(act[1])
                    if i >= len(reg):
                        out.rejected = "history not applicable"
                        return out
                    node = reg[i]
                    g = env.arr("g%d" % ng, node.shape, lo=-2, hi=2)
                    ng += 1
                    others = [(j, t, None if gradof(t) is None else snapshot(gradof(t))) for j, t in enumerate(reg)
                              if not _reaches(node, t)]
                    node.backward(Tn(g))
                    if env.sym:
                        ga, gb = vjp_terms(node, g, [a_arr, b_arr])
                        for name, true in (("a", ga), ("b", gb)):
                            if _reaches(node, leaves[name]):
                                cur = acc[name] if acc[name] is not None else [S(sc.const(0))] * len(true)
                                acc[name] = [c + S(x) for c, x in zip(cur, true)]
                    for j, t, snap in others:
                        if snap is None:
                            out.fact("unreachable tensor %d untouched by action %d" % (j, step), gradof(t) is None)
                        else:
                            out.pair("unreachable tensor %d untouched by action %d" % (j, step),
                                     snapshot(gradof(t)) if gradof(t) is not None else np.zeros(0), snap)
                elif act[0] == "R":
                    i = int(act[1])
                    if i >= len(reg):
                        out.rejected = "history not applicable"
                        return out
                    reg[i].retain_grad()
                elif act == "E":
                    c = synapgrad.retain_grads()
                    c.__enter__()
                    ctx_stack.append(c)
                elif act == "X":
                    if not ctx_stack:
                        out.rejected = "history not applicable"
                        return out
                    ctx_stack.pop().__exit__(None, None, None)
                elif act == "Za":
                    a.zero_()
                    acc["a"] = [S(sc.const(0))] * 2
                elif act in ("ZM", "ZO"):
                    (mod if act == "ZM" else opt).zero_grad()
                    # a leaf that holds a gradient is cleared; one that holds none may stay without or get a buffer of zeros
                    # (both are "the sum since the last reset"): marked "maybe" until a backward reaches it
                    maybe |= {k for k in acc if acc[k] is None}
                    acc = {k: ([S(sc.const(0))] * 2 if acc[k] is not None else None) for k in acc}
                # leaves after every action
                if env.sym:
                    for name, t in leaves.items():
                        if acc[name] is not None:
                            maybe.discard(name)
                        if acc[name] is None and name in maybe:
                            if gradof(t) is not None:
                                out.pair("sym:leaf %s cleared before it was ever reached holds zeros, if anything (after action %d)" % (name, step),
                                         snapshot(gradof(t)), np.array([S(sc.const(0))] * 2, dtype=object).reshape(t.shape))
                        elif acc[name] is None:
                            out.fact("leaf %s has no gradient before it is first reached (after action %d)" % (name, step),
                                     gradof(t) is None)
                        elif gradof(t) is None:
                            out.fact("leaf %s keeps its accumulated gradient (after action %d)" % (name, step), False,
                                     "buffer is None")
                        else:
                            out.pair("sym:leaf %s = sum of true gradients since its last reset (after action %d: %s)" % (
                                name, step, " ".join(self.spec["history"][:step + 1])), snapshot(gradof(t)),
                                np.array(acc[name], dtype=object).reshape(t.shape))
        finally:
            while ctx_stack:
                ctx_stack.pop().__exit__(None, None, None)
        out.notes["obs:grad_a"] = gradof(a) if gradof(a) is not None else np.zeros(0)
        out.notes["obs:grad_b"] = gradof(b) if gradof(b) is not None else np.zeros(0)
        return out

    def replay(self, cand):
        return _replay_fd(self, cand)


def _replay_fd(case, cand):
    """plain-code replay for C04: the final leaf gradients of the history are linear in every seed gradient g_k and
    in the pre-state buffers; the reference value is rebuilt without the engine by central differences of each
    backward call's scalar  sum(g * node)  with respect to the leaves, accumulated per the history."""
    point = cand["point"]
    if cand["kind"] != "value":
        return E.replay_generic(case, cand)
    ref = _plain_reference(case, point)
    out, err = E.run_plain(case, point, "plain64")
    if err is not None or ref is None:
        return False, "plain run failed: %s" % err
    msgs = []
    for name in ("a", "b"):
        got = out.notes["obs:grad_" + name]
        exp = ref[name]
        if exp is None:
            if np.size(got):
                msgs.append("leaf %s has a gradient but was never reached" % name)
            continue
        if not np.size(got):
            msgs.append("leaf %s lost its gradient" % name)
            continue
        got = np.asarray(got, dtype=np.float64).reshape(-1)
        scl = max(1.0, float(np.max(np.abs(exp))))
        for i in range(len(exp)):
            if abs(got[i] - exp[i]) > 1e-4 * scl:
                msgs.append("leaf %s[%d]: code=%.8g, sum of finite-difference gradients since last reset=%.8g" % (
                    name, i, got[i], exp[i]))
    if msgs:
        return True, "; ".join(msgs[:4])
    return False, "plain float64 run agrees with the finite-difference reference"


def _plain_reference(case, point):
    """running sum per leaf using finite differences on plain float64 tensors (no engine involved)"""
    from ..common import tensor_mod
    from ..symnum import array as ar
    ar.uninstall()
    Tn = T()
    av = np.array([point["a_0"], point["a_1"]], dtype=np.float64)
    bv = np.array([point["b_0"], point["b_1"]], dtype=np.float64)

    def value_of(path, av_, bv_):
        """recompute the tensor identified by `path` (list of build actions and index) at the given leaf values"""
        a = Tn(av_.copy(), requires_grad=True)
        b = Tn(bv_.copy(), requires_grad=True)
        reg = []
        for act in path[0]:
            if act in ("B0", "B1"):
                reg += [t for _, t in template(int(act[1]), a, b)]
            elif act == "BR":
                reg += [t for _, t in template(2, a, b, prev=reg[0])]
        return np.asarray(reg[path[1]].data, dtype=np.float64)

    def fd(path, g):
        res = {}
        for name, base in (("a", av), ("b", bv)):
            grad = np.zeros(2)
            for i in range(2):
                h = 1e-6
                p1, p2 = base.copy(), base.copy()
                p1[i] += h
                p2[i] -= h
                v1 = value_of(path, p1 if name == "a" else av, p1 if name == "b" else bv)
                v2 = value_of(path, p2 if name == "a" else av, p2 if name == "b" else bv)
                grad[i] = float(np.sum(g * (v1 - v2))) / (2 * h)
            res[name] = grad
        return res
    if isinstance(case, StepCase):
        sp = case.spec
        builds = ["B%d" % sp["template"]]
        g = _g(point, "g", None)
        root_shape = value_of((builds, sp["root"]), av, bv).shape
        g = g.reshape(root_shape)
        d = fd((builds, sp["root"]), g)
        ref = {}
        a_ = Tn(av.copy(), requires_grad=True)
        b_ = Tn(bv.copy(), requires_grad=True)
        nodes = template(sp["template"], a_, b_)
        root = nodes[sp["root"]][1]
        for name, leaf, mode in (("a", a_, sp["pre_a"]), ("b", b_, sp["pre_b"])):
            pre = np.array([point.get("pre_%s_0" % name, 0.0), point.get("pre_%s_1" % name, 0.0)]) if mode == "sym" else None
            if not _reaches(root, leaf):
                ref[name] = pre
            else:
                ref[name] = d[name] + (pre if pre is not None else 0.0)
        return ref
    acc = {"a": None, "b": None}
    builds = []
    nreg = 0
    ng = 0
    for act in case.spec["history"]:
        if act in ("B0", "B1", "BR"):
            builds.append(act)
            nreg += {"B0": 2, "B1": 3, "BR": 2}[act]
        elif act == "KL":
            g = _g(point, "g%d" % ng, (2,))
            ng += 1
            acc["b"] = g + (acc["b"] if acc["b"] is not None else 0.0)
        elif act[0] == "K":
            i = int(act[1])
            a_ = Tn(av.copy(), requires_grad=True)
            b_ = Tn(bv.copy(), requires_grad=True)
            reg = []
            for bact in builds:
                if bact in ("B0", "B1"):
                    reg += [t for _, t in template(int(bact[1]), a_, b_)]
                else:
                    reg += [t for _, t in template(2, a_, b_, prev=reg[0])]
            node = reg[i]
            g = _g(point, "g%d" % ng, node.shape)
            ng += 1
            d = fd((list(builds), i), g)
            for name, leaf in (("a", a_), ("b", b_)):
                if _reaches(node, leaf):
                    acc[name] = d[name] + (acc[name] if acc[name] is not None else 0.0)
        elif act == "Za":
            acc["a"] = np.zeros(2)
        elif act in ("ZM", "ZO"):
            acc = {k_: (np.zeros(2) if v_ is not None else None) for k_, v_ in acc.items()}
    return acc


def _g(point, name, shape):
    ks = sorted(k for k in point if k == name or k.startswith(name + "_"))
    v = np.array([point[k] for k in ks], dtype=np.float64)
    return v.reshape(shape) if shape is not None else v


# ------------------------------------------------------------------------------------------ enumeration
def valid_history(h):
    nreg = 0
    depth = 0
    for act in h:
        if act in ("B0", "BR"):
            if act == "BR" and nreg == 0:
                return False
            nreg += 2
        elif act == "B1":
            nreg += 3
        elif act == "KL":
            pass
        elif act[0] in "KR":
            if int(act[1]) >= nreg:
                return False
        elif act == "E":
            depth += 1
        elif act == "X":
            if depth == 0:
                return False
            depth -= 1
    return True


def enumerate_specs(tier, seed=0):
    specs = []
    # (i) inductive steps
    for tmpl, nn_ in ((0, 2), (1, 3)):
        for root in range(nn_):
            for pre_a, pre_b in itertools.product(("absent", "sym"), repeat=2):
                for pre_nodes in itertools.product(("absent", "stale", "retained"), repeat=nn_):
                    for retain_all in (0, 1):
                        if tier == "quick" and (retain_all and pre_a != pre_b):
                            continue
                        specs.append({"kind": "step", "template": tmpl, "root": root, "pre_a": pre_a, "pre_b": pre_b,
                                      "pre_nodes": list(pre_nodes), "retain_all": retain_all})
                        if retain_all == 0 and pre_b == "absent":
                            specs.append({"kind": "step", "template": tmpl, "root": root, "pre_a": pre_a, "pre_b": pre_b,
                                          "pre_nodes": list(pre_nodes), "retain_all": retain_all, "computed_leaf": True})
    # (ii) histories
    rng = random.Random(99 + seed)
    maxlen = 4 if tier == "quick" else 5
    for n in range(1, maxlen):
        for first in ("B0", "B1"):
            for rest in itertools.product(ACTIONS, repeat=n):
                h = (first,) + rest
                if not valid_history(h) or not any(x[0] == "K" for x in h):
                    continue
                if n == 3 and rng.random() > (0.35 if tier == "quick" else 1.0):
                    continue
                if n == 4 and rng.random() > 0.5:
                    continue
                specs.append({"kind": "history", "history": list(h)})
                if sum(1 for x in h if x[0] == "K") >= 2 and len(specs) % 3 == 0:
                    specs.append({"kind": "history", "history": list(h), "computed_leaf": True})
    return specs


class NonFiniteResetCase:
    """a reset is a reset whatever the buffer held: a gradient that is legitimately infinite (d sqrt(x)/dx and d (1/x)/dx at x = 0) is cleared by every reset path, and the gradients of later backward calls are the true finite sums.
    Runs in the extended-real mode of C09 (IEEE inf/nan propagate symbolically: inf * 0 = nan)."""
    prop = PROP

    def __init__(self, spec):
        self.spec = spec
        self.sig = sig_of("nonfinite-reset", spec, None)

    def run(self, env):
        import synapgrad
        from synapgrad import nn, optim
        from ..symnum import xr as XRM
        from ..symnum.scalar import CTX
        Tn = T()
        out = E.Outcome()
        sp = self.spec
        prev = (CTX.xr, CTX.rewrite)
        if env.sym:
            CTX.xr = XRM.XR("float32")
            CTX.rewrite = False
        try:
            x = Tn(env.const([0.0, 4.0]), requires_grad=True)
            holder = x
            if sp["via"] in ("module", "optimizer"):
                holder = nn.Parameter(x)
            f = (lambda t: t.sqrt()) if sp["source"] == "sqrt" else (lambda t: 1.0 / t)
            src = f(holder)
            if sp["where"] == "leaf":
                src.sum().backward()                      # holder.grad = [inf, ...]
                target = holder
            else:                                          # an interior tensor keeps an infinite gradient (retained)
                mid = holder * 1.0
                mid.retain_grad()
                f(mid).sum().backward()
                target = mid
            had = gradof(target)
            if env.sym:
                first_special = any(v.n.op in ("inf", "nan") for v in had.view(np.ndarray).reshape(-1))
            else:
                first_special = not bool(np.all(np.isfinite(np.asarray(had, dtype=np.float64))))
            if not first_special:       # the premise of the scenario, not a property of the code
                raise sc.Unsupported("the first backward left a finite gradient: nothing to reset")
            if sp["via"] == "zero_":
                target.zero_()
                if target is not holder:
                    holder.zero_()
            elif sp["via"] == "module":
                class M(nn.Module):
                    def __init__(s):
                        super().__init__()
                        s.w = holder
                M().zero_grad()
            elif sp["via"] == "optimizer":
                optim.SGD([holder], lr=0.1).zero_grad()
            # a further backward through the same tensors: gradients are the fresh finite sums
            a = env.arr("a", (2,), lo=-2, hi=2)
            if sp["where"] == "leaf":
                (holder * Tn(a)).sum().backward()
                got = gradof(holder)
                want = a
            else:
                (target * Tn(a)).sum().backward()        # interior node of the earlier call, reused in a new graph
                got = gradof(holder)
                want = a if sp["via"] == "zero_" else None   # module/optimizer resets do not reach the interior buffer: the leaf
            if got is None:                                   # was reset, and the stale interior buffer must not leak (C04)
                out.fact("the leaf has a gradient after the second backward", False)
                return out
            if env.sym:
                vals = list(got.view(np.ndarray).reshape(-1))
                bad = [i for i, v in enumerate(vals) if v.n.op in ("inf", "nan")]
                out.fact("gradients after a reset are finite", not bad, "element(s) %s are %s" % (bad, [vals[i].n.op for i in bad]))
                if not bad:
                    out.pair("gradient after the reset = the new contribution", got, a)
            else:
                fin = bool(np.all(np.isfinite(np.asarray(got, dtype=np.float64))))
                out.fact("gradients after a reset are finite", fin, "gradient %s" % np.asarray(got).tolist())
                if fin:
                    out.pair("gradient after the reset = the new contribution", got, a)
        finally:
            CTX.xr, CTX.rewrite = prev
        return out


def nonfinite_specs():
    specs = []
    for source in ("sqrt", "reciprocal"):
        for via in ("zero_", "module", "optimizer"):
            specs.append({"kind": "nonfinite", "source": source, "via": via, "where": "leaf"})
        specs.append({"kind": "nonfinite", "source": source, "via": "zero_", "where": "interior"})
    return specs


class AssignedGradCase:
    """gradients put on leaves through the public setter (copied from another leaf / one tensor assigned to two leaves) and
    then accumulated into: "tensors not reachable from the root of a call are not changed by it" (shared with C11)"""
    prop = PROP

    def __init__(self, spec):
        from . import c11
        self.inner = c11.Scenario("assigned_gradient_own_buffer")
        self.sig = "assigned_gradient_own_buffer"

    def run(self, env):
        return self.inner.run(env)


class TiedResetCase:
    """two registered parameters over one storage (dec = nn.Parameter(enc): a second leaf with a gradient buffer of its own):
    a reset through the module or through an optimizer built from module.parameters() clears both, so that afterwards each holds
    the gradients of the calls since the reset only"""
    prop = PROP

    def __init__(self, spec):
        self.via = spec["via"]
        self.sig = "tied_parameters_reset:" + self.via

    def run(self, env):
        from synapgrad import nn, optim
        out = E.Outcome()
        Tn = T()
        m = nn.Module()
        m.enc = nn.Parameter(Tn(env.arr("w", SHAPE), requires_grad=True))
        m.dec = nn.Parameter(m.enc)
        a, b = env.arr("a", SHAPE), env.arr("b", SHAPE)
        out.fact("both tied parameters are reported", len(m.parameters()) == 2 and any(p is m.dec for p in m.parameters()),
                 "%d parameters reported" % len(m.parameters()))

        def call(g):
            ((m.enc * Tn(a)) + (m.dec * Tn(b))).backward(Tn(g))
        g1, g2, g3 = (env.arr(n_, SHAPE, lo=-2, hi=2) for n_ in ("g1", "g2", "g3"))
        call(g1)
        call(g2)
        out.pair("enc accumulates over two calls", gradof(m.enc), (g1 + g2) * a)
        out.pair("dec accumulates over two calls", gradof(m.dec), (g1 + g2) * b)
        (m if self.via == "module" else optim.SGD(m.parameters(), lr=0.1)).zero_grad()
        call(g3)
        out.pair("enc holds the call since the reset only", gradof(m.enc), g3 * a)
        out.pair("dec holds the call since the reset only", gradof(m.dec), g3 * b)
        return out


def build(spec):
    spec = dict(spec)
    kind = spec.pop("kind")
    if kind == "tied":
        return TiedResetCase(spec)
    if kind == "assigned":
        return AssignedGradCase(spec)
    if kind == "nonfinite":
        return NonFiniteResetCase(spec)
    return StepCase(spec) if kind == "step" else HistCase(spec)


def main(tier, seed):
    t0 = time.time()
    specs = enumerate_specs(tier, seed) + nonfinite_specs() + [{"kind": "assigned"}, {"kind": "tied", "via": "module"}, {"kind": "tied", "via": "optimizer"}]
    results = runner.run_pool(__name__, specs, tier, seed)
    return runner.finish(
        PROP, tier, seed, results, t0,
        bounds={"leaves": "two leaves of shape (2,); leaf a either created directly or computed from non-grad tensors and flagged afterwards", "templates": "m=a*b, r=m+a | m=exp(a/2), n=m*b, r=sum(n) | q=prev*a, r=q+b (reuse)",
                "inductive step": "every node as root x leaf buffers absent/arbitrary x interior buffers absent/stale/"
                                  "stale+retain_grad x global retain flag",
                "non-finite resets": "a leaf / a retained interior tensor holding an infinite gradient (sqrt, 1/x at 0) is reset through "
                                     "Tensor.zero_, Module.zero_grad or Optimizer.zero_grad and differentiated again (extended-real mode)",
                "histories": "build + <= 3 (quick) / 4 (thorough) further actions over %s; length-4/5 tails sampled with "
                             "VERIF_SEED" % ACTIONS},
        assumptions=["floats are reals",
                     "invariant of the inductive step: leaf buffers hold an arbitrary accumulated value, every interior "
                     "buffer is arbitrary (what any real history can leave behind via retain_grad / retain_grads / having "
                     "been a root); one step from this state covers histories of any length",
                     "zeroing is read as 'buffer of zeros' (Tensor.zero_, Module.zero_grad, Optimizer.zero_grad)"],
        stubs=["gradient buffers are put on the tensors directly (Tensor._grad, or the public .grad setter if that name is gone) to build the arbitrary pre-state; retain_grad() / retain_grads() through the public API"],
        extra_cov={"exhaustive": False},
        rule="inductive-step configurations are exhaustive; histories are exhaustively generated and the longest tails "
             "sampled; values, stale buffers and seed gradients symbolic; oracle = scalar differentiator on the composed terms")
