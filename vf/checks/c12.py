"""C12 - module trees report each parameter once and propagate mode / freeze / zero_grad to all descendants
(E2: CrossHair over a symbolic history of registry actions, compared with an ordered-registry model)."""
from __future__ import annotations

import os
import time
from concurrent.futures import ThreadPoolExecutor

from .. import e2
from . import c07

PROP = "C12"

H = '''
import numpy as np
from typing import List
from collections import OrderedDict
import synapgrad
from synapgrad import nn
from synapgrad.nn.modules import Module, Parameter, Sequential
FIRST = %(first)r
MAXLEN = %(maxlen)d
NACT = 34


class M(Module):
    def forward(self, x):
        return x


class Tag(Module):
    def __init__(self, tag):
        super().__init__()
        self.tag = tag

    def forward(self, x):
        return x + [self.tag]


def _world():
    mods = [M(), M(), M()]          # m0 may hold m1, m1 may hold m2 (two levels of nesting)
    pars = [Parameter(np.ones((i + 1,), dtype=np.float32), requires_grad=True) for i in range(2)]
    # model: per module two ordered registries (parameters, submodules); training flags; per parameter req / grad state
    reg = [(OrderedDict(), OrderedDict()), (OrderedDict(), OrderedDict()), (OrderedDict(), OrderedDict())]
    return mods, pars, reg, [True, True, True], [True, True], [None, None]


def _assign(reg, mi, name, entry):
    """two ordered registries per module (parameters, submodules); a name holds at most one registration: assigning
    replaces what the name held before; re-using a name for the same kind keeps its position (dict semantics), a name
    that changes kind is registered anew at the end of its new registry"""
    P, Sb = reg[mi]
    if entry is None:
        P.pop(name, None)
        Sb.pop(name, None)
    elif entry[0] == "p":
        Sb.pop(name, None)
        P[name] = entry[1]
    else:
        P.pop(name, None)
        Sb[name] = entry[1]


def _reach_params(reg, mi, acc=None, seen=None):
    acc = [] if acc is None else acc
    seen = [] if seen is None else seen
    if mi in seen:
        return acc
    seen.append(mi)
    for name, idx in reg[mi][0].items():
        if idx not in acc:
            acc.append(idx)
    for name, idx in reg[mi][1].items():
        _reach_params(reg, idx, acc, seen)
    return acc


def _reach_mods(reg, mi, acc=None):
    acc = [] if acc is None else acc
    if mi in acc:
        return acc
    acc.append(mi)
    for name, idx in reg[mi][1].items():
        _reach_mods(reg, idx, acc)
    return acc


def _check(mods, pars, reg, training, req, gstate):
    for mi in range(3):
        got = mods[mi].parameters()
        want = _reach_params(reg, mi)
        if len(got) != len(want) or not all(g is pars[w] for g, w in zip(got, want)):
            return False
        tot = sum(pars[w].size for w in want)
        tr = sum(pars[w].size for w in want if req[w])
        if mods[mi].num_params() != tot or mods[mi].num_params(trainable=True) != tr or mods[mi].num_params(non_trainable=True) != tot - tr:
            return False
        subs = [idx for name, idx in reg[mi][1].items()]
        gs = mods[mi].submodules()
        if len(gs) != len(subs) or not all(g is mods[s] for g, s in zip(gs, subs)):
            return False
        if mods[mi].training != training[mi]:
            return False
    for i in range(2):
        if pars[i].requires_grad != req[i]:
            return False
        g = _g(pars[i])
        if gstate[i] == "?":         # cleared while it held no gradient: "still none" and "a buffer of zeros" are both fine
            if g is not None and float(abs(g).sum()) != 0.0:
                return False
        elif gstate[i] is None:
            if g is not None:
                return False
        elif g is None or float(g.sum()) != float(gstate[i] * pars[i].size):
            return False
    return True


def %(name)s(rest: List[int]) -> bool:
    """
    pre: len(rest) <= MAXLEN
    pre: all(0 <= a < NACT for a in rest)
    post: __return__ == True
    """
    _PATHS[0] += 1
    mods, pars, reg, training, req, gstate = _world()
    ok = True
    for a in [FIRST] + list(rest):
        if a == 0:
            mods[0].a = pars[0]; _assign(reg, 0, "a", ("p", 0))
        elif a == 1:
            mods[0].a = pars[1]; _assign(reg, 0, "a", ("p", 1))
        elif a == 2:
            mods[0].b = pars[0]; _assign(reg, 0, "b", ("p", 0))
        elif a == 3:
            mods[0].b = mods[1]; _assign(reg, 0, "b", ("m", 1))
        elif a == 4:
            mods[0].a = mods[1]; _assign(reg, 0, "a", ("m", 1))
        elif a == 5:
            mods[0].a = None; _assign(reg, 0, "a", None)
        elif a == 6:
            mods[0].b = None; _assign(reg, 0, "b", None)
        elif a == 7:
            mods[0].a = 5; _assign(reg, 0, "a", None)
        elif a == 8:
            mods[1].a = pars[0]; _assign(reg, 1, "a", ("p", 0))
        elif a == 9:
            mods[1].a = pars[1]; _assign(reg, 1, "a", ("p", 1))
        elif a == 10:
            mods[1].b = pars[1]; _assign(reg, 1, "b", ("p", 1))
        elif a == 11:
            mods[1].a = None; _assign(reg, 1, "a", None)
        elif a == 12:
            mods[0].register_parameter("b", pars[1]); _assign(reg, 0, "b", ("p", 1))
        elif a == 13:
            mods[0].register_module("b", mods[1]); _assign(reg, 0, "b", ("m", 1))
        elif a == 14:
            mods[0].eval()
            for m in _reach_mods(reg, 0): training[m] = False
        elif a == 15:
            mods[0].train()
            for m in _reach_mods(reg, 0): training[m] = True
        elif a == 16:
            mods[1].eval()
            for m in _reach_mods(reg, 1): training[m] = False
        elif a == 17:
            mods[0].freeze()
            for p in _reach_params(reg, 0): req[p] = False
        elif a == 18:
            mods[0].unfreeze()
            for p in _reach_params(reg, 0): req[p] = True
        elif a == 19:
            mods[1].freeze()
            for p in _reach_params(reg, 1): req[p] = False
        elif a == 20:
            mods[0].zero_grad()
            for p in _reach_params(reg, 0):
                if req[p]: gstate[p] = 0 if gstate[p] not in (None, "?") else "?"
        elif a == 21:
            mods[1].zero_grad()
            for p in _reach_params(reg, 1):
                if req[p]: gstate[p] = 0 if gstate[p] not in (None, "?") else "?"
        elif a == 22:
            _setg(pars[0], np.ones(pars[0].shape, dtype=np.float32)); gstate[0] = 1
        elif a == 23:
            _setg(pars[1], np.ones(pars[1].shape, dtype=np.float32)); gstate[1] = 1
        elif a == 24:
            mods[1].train()
            for m in _reach_mods(reg, 1): training[m] = True
        elif a == 25:
            mods[1].unfreeze()
            for p in _reach_params(reg, 1): req[p] = True
        elif a == 26:
            mods[1].b = 7; _assign(reg, 1, "b", None)
        elif a == 27:
            mods[1].c = mods[2]; _assign(reg, 1, "c", ("m", 2))
        elif a == 28:
            mods[2].a = pars[1]; _assign(reg, 2, "a", ("p", 1))
        elif a == 29:
            mods[2].eval()
            for m in _reach_mods(reg, 2): training[m] = False
        elif a == 30:
            mods[2].a = pars[0]; _assign(reg, 2, "a", ("p", 0))
        elif a == 31:            # deleting an attribute removes whatever registration the name held
            try:
                del mods[0].a
            except AttributeError:
                pass
            _assign(reg, 0, "a", None)
        elif a == 33:            # a name the module machinery uses itself ('training'): registering a submodule under it must be
            try:                 # refused - accepted, the next train()/eval() would overwrite (and so un-register) the submodule
                mods[0].register_module("training", mods[1])
                ok = False
            except (KeyError, ValueError, TypeError, AttributeError):
                pass
        else:                    # a module diamond: m2 is reachable from m0 directly and (after action 27) through m1 as well
            mods[0].c = mods[2]; _assign(reg, 0, "c", ("m", 2))
        ok = ok and _check(mods, pars, reg, training, req, gstate)
    return ok


def %(name)s_twin(rest: List[int]) -> bool:
    """
    pre: len(rest) <= MAXLEN
    pre: all(0 <= a < NACT for a in rest)
    post: False
    """
    return True
'''

HSEQ = '''
from typing import List
from collections import OrderedDict
from synapgrad.nn.modules import Module, Sequential
FIRST = %(first)r
MAXLEN = %(maxlen)d


class Tag(Module):
    def __init__(self, tag):
        super().__init__()
        self.tag = tag

    def forward(self, x):
        return x + [self.tag]


def %(name)s(order: List[int]) -> bool:
    """
    pre: 1 <= len(order) <= MAXLEN
    pre: all(0 <= a <= 3 for a in order)
    post: __return__ == True
    """
    _PATHS[0] += 1
    tags = [Tag(i) for i in range(4)]
    chosen = [tags[i] for i in order]
    if FIRST == 0:
        seq = Sequential(*chosen)
    else:
        od = OrderedDict()
        for k, m in enumerate(chosen):
            od["layer%%d" %% k] = m
        seq = Sequential(od)
    out = seq([])
    seq.eval()
    return out == list(order) and all(not m.training for m in chosen) and len(seq.submodules()) == len(order)


def %(name)s_twin(order: List[int]) -> bool:
    """
    pre: 1 <= len(order) <= MAXLEN
    pre: all(0 <= a <= 3 for a in order)
    post: False
    """
    return True
'''


def main(tier, seed):
    t0 = time.time()
    # measured: one partition with 2 symbolic actions behind the first has ~1100 paths (2-3 min); a third symbolic action
    # multiplies that by 33 and no longer finishes, so the thorough tier gives *every* first action 2 symbolic followers
    maxlen = 2
    files = []
    for first in range(34):
        name = "h_p%d" % first
        # quick: every history of length <= 2, and length <= 3 behind the (re-)registration actions
        ml = maxlen if (tier != "quick" or first in (2, 3, 13, 27, 32)) else 1
        files.append((e2.write_module("c12_" + name, H % {"first": first, "maxlen": ml, "name": name}), name, "registry", first, ml))
    for first in (0, 1):
        name = "seq_p%d" % first
        files.append((e2.write_module("c12_" + name, HSEQ % {"first": first, "maxlen": 3 if tier == "quick" else 4, "name": name}),
                      name, "sequential", first, 3))
    timeout = 300 if tier == "quick" else 1200
    procs = int(os.environ.get("VERIF_PROCS", "16"))

    def job(item):
        path, name, kind, first, ml = item
        r = e2.run_one(path, name, timeout)
        tw = e2.run_one(path, name + "_twin", 20)
        r["twin"] = tw["status"]
        r["path"] = path
        r["kind"], r["first"], r["maxlen"] = kind, first, ml
        return r
    with ThreadPoolExecutor(max_workers=procs) as ex:
        results = list(ex.map(job, files))
    return c07.finish(PROP, tier, seed, results, t0, {
        "universe": "3 modules (two levels of nesting, plus a diamond), 2 parameters (sizes 1, 2), attribute names a/b/c; 34 concrete actions (incl. registration under the reserved name 'training') (assign "
                    "parameter / submodule / None / int, delete, register_parameter/module, train/eval, freeze/unfreeze, zero_grad, set a gradient)",
        "history": "first action fixed per partition + symbolic followers: quick 1 everywhere and 2 behind five (re-)registration "
                   "actions; thorough 2 behind every first action (a third follower does not finish: ~33 x 1100 paths per partition)",
        "sequential": "positional and OrderedDict construction from <= %d submodules chosen among 4 (repeats allowed)" % (3 if tier == "quick" else 4)})
