"""C03 - gradients of arbitrary op compositions obey the chain rule on any DAG.
A program is a vector of small integers (opcode + operand indices per node); leaves are 2x2 tensors."""
from __future__ import annotations

import itertools
import random
import time

import numpy as np

from ..harness import T, sig_of, elem_names, gradof, set_grad, children_of
from ..symnum import engine as E
from .. import runner

PROP = "C03"

UNARY = ["exp", "tanh", "transpose", "sum_keep", "row0", "unbind_mul", "relu", "neg", "sum_all_scaled",
         "unbind_first", "softmax", "stack_self", "pow2", "lin_bias"]
BINARY = ["add", "mul", "matmul", "sub", "linear", "mse", "cat_sum", "div_safe"]
UNARY_SMALL = ["exp", "transpose", "sum_keep", "unbind_mul"]
BINARY_SMALL = ["add", "mul", "matmul"]


def apply_op(op, xs):
    import synapgrad
    import synapgrad.nn.functional as NF
    a = xs[0]
    if op == "exp":
        return (a * 0.5).exp()
    if op == "tanh":
        return NF.tanh(a)
    if op == "transpose":
        return a.transpose(0, -1) if a.ndim >= 2 else a.clone()
    if op == "sum_keep":
        return a.sum(0, keepdims=True)
    if op == "row0":
        return a[0]
    if op == "unbind_mul":            # one multi-output op whose outputs are both consumed
        u = synapgrad.unbind(a, 0)
        return u[0] * u[-1]
    if op == "relu":
        return NF.relu(a)
    if op == "neg":
        return -a
    if op == "sum_all_scaled":
        return a.sum() * a                # 0-d result broadcast against its own operand
    if op == "unbind_first":          # a multi-output op of which only one output is used
        return synapgrad.unbind(a, 0)[0] if a.ndim >= 1 else a.clone()
    if op == "softmax":
        return NF.softmax(a, -1) if a.ndim >= 1 else a.clone()
    if op == "stack_self":            # the same tensor twice in one multi-operand op
        return synapgrad.stack([a, a], 0).sum(0)
    if op == "pow2":
        return a ** 2
    if op == "lin_bias":              # a three-operand op whose only operand on the differentiable path is the bias
        cx = synapgrad.Tensor(np.array([[0.5, -1.0], [2.0, 0.25]], dtype=np.float32))
        cw = synapgrad.Tensor(np.array([[1.0, 0.5], [-0.5, 2.0]], dtype=np.float32))
        return NF.linear(cx, cw, a[0] if a.ndim >= 2 else a)
    b = xs[1]
    if op == "add":
        return a + b
    if op == "mul":
        return a * b
    if op == "sub":
        return a - b
    if op == "matmul":
        return a @ b
    if op == "linear":
        return NF.linear(a, b)
    if op == "mse":
        return NF.mse_loss(a, b)
    if op == "cat_sum":
        return synapgrad.concat([a, b], 0).sum(0, keepdims=True)
    if op == "div_safe":
        return a / (b * b + 1.0)
    raise ValueError(op)


def arity(op):
    return 1 if op in UNARY else 2


def gen_programs(n_leaves, n_nodes, unary, binary):
    """all live programs with exactly n_nodes op nodes: node k = (op, operand indices into leaves+earlier nodes);
    every node except the last must be used by a later node"""
    out = []

    def rec(nodes):
        k = len(nodes)
        if k == n_nodes:
            used = set()
            for _, args in nodes:
                used.update(args)
            if all((n_leaves + i) in used for i in range(n_nodes - 1)):
                out.append(list(nodes))
            return
        avail = n_leaves + k
        for op in unary:
            for a in range(avail):
                rec(nodes + [(op, (a,))])
        for op in binary:
            for a in range(avail):
                for b in range(avail):
                    rec(nodes + [(op, (a, b))])
    rec([])
    return out


def alt_order(nodes, n_leaves):
    """another topological order of the same DAG: always pick the highest-numbered ready node"""
    n = len(nodes)
    done = set(range(n_leaves))
    order = []
    remaining = set(range(n))
    while remaining:
        ready = [i for i in remaining if all(a in done for a in nodes[i][1])]
        i = max(ready)
        order.append(i)
        remaining.discard(i)
        done.add(n_leaves + i)
    return order


class Case:
    prop = PROP

    def __init__(self, spec):
        self.spec = spec
        self.nodes = [(op, tuple(args)) for op, args in spec["nodes"]]
        self.req = spec["req"]
        self.sig = sig_of("prog", {"nodes": spec["nodes"], "req": spec["req"]}, ({"twice": True, "retain": True} if spec.get("retain") else {"twice": True}) if spec.get("twice") else None)

    def build(self, leaves, order):
        vals = list(leaves) + [None] * len(self.nodes)
        n_leaves = len(leaves)
        for i in order:
            op, args = self.nodes[i]
            vals[n_leaves + i] = apply_op(op, [vals[a] for a in args])
        return vals

    def run(self, env):
        import synapgrad.functional as Fmod
        out = E.Outcome()
        Tn = T()
        n_leaves = len(self.req)
        arrays = [env.arr("L%d" % i, (2, 2)) for i in range(n_leaves)]
        names = {"L%d" % i: elem_names("L%d" % i, (2, 2)) for i in range(n_leaves)}
        leaves = [Tn(a, requires_grad=bool(r)) for a, r in zip(arrays, self.req)]
        try:
            vals = self.build(leaves, list(range(len(self.nodes))))
        except Exception as e:  # noqa: BLE001 - shapes do not fit: not a program of the space
            from ..symnum.scalar import Unsupported
            if isinstance(e, Unsupported):
                raise
            out.rejected = "%s: %s" % (type(e).__name__, e)
            return out
        root = vals[-1]
        if not root.requires_grad:
            try:
                root.backward(Tn(env.arr("g", root.shape, lo=-2, hi=2)))
                out.fact("backward() refuses a root that does not require grad", False)
            except RuntimeError:
                out.fact("backward() refuses a root that does not require grad", True)
            return out
        if self.spec.get("retain"):
            # round k: every intermediate result keeps its gradient (retain_grad()); what a call leaves there is for the user to
            # read - the next call from the same root still hands every leaf exactly its own VJP
            for v in vals[n_leaves:-1]:
                if v is not None and v.requires_grad and not v.is_leaf:
                    v.retain_grad()
        g = env.arr("g", root.shape, lo=-2, hi=2)
        # (d) every recorded op reachable from the root fires exactly once, consumers before producers
        log = []
        orig_call = Fmod.BackwardFunction.__call__

        def logged(self_):
            log.append(self_)
            return orig_call(self_)
        Fmod.BackwardFunction.__call__ = logged
        try:
            root.backward(Tn(g))
        finally:
            Fmod.BackwardFunction.__call__ = orig_call
        reach = []
        seen = set()
        st = [root]
        while st:
            t = st.pop()
            if id(t) in seen:
                continue
            seen.add(id(t))
            reach.append(t)
            st.extend(children_of(t))
        fns = [t.grad_fn for t in reach if t.grad_fn is not None]
        out.fact("each recorded operation fires exactly once", sorted(map(id, log)) == sorted(map(id, fns)),
                 "%d calls for %d recorded operations" % (len(log), len(fns)))
        pos = {id(f): i for i, f in enumerate(log)}
        ok_order = True
        for t in reach:
            if t.grad_fn is None or id(t.grad_fn) not in pos:
                continue
            for c in children_of(t):
                if c.grad_fn is not None and id(c.grad_fn) in pos and pos[id(c.grad_fn)] < pos[id(t.grad_fn)]:
                    ok_order = False
        out.fact("consumers are differentiated before their operands (reverse topological order)", ok_order)
        # a leaf the root does not depend on must be left alone (no gradient buffer at all)
        outs_, gs_ = [root.data], [g]
        if self.spec.get("twice"):
            # the same root differentiated again with another upstream gradient: every leaf accumulates the second VJP
            h = env.arr("h", root.shape, lo=-2, hi=2)
            root.backward(Tn(h))
            outs_, gs_ = [root.data, root.data], [g, h]
        out.vjp = dict(outs=outs_, gs=gs_,
                       inputs=[("L%d" % i, t.data, gradof(t), t.requires_grad and id(t) in seen)
                               for i, t in enumerate(leaves)])
        out.notes["names"] = names
        if self.spec.get("twice"):
            return out
        # (c) a different construction order of the independent sub-expressions gives the same gradients
        order2 = alt_order(self.nodes, n_leaves)
        if order2 != list(range(len(self.nodes))):
            leaves2 = [Tn(a, requires_grad=bool(r)) for a, r in zip(arrays, self.req)]
            vals2 = self.build(leaves2, order2)
            vals2[-1].backward(Tn(g))
            for i, (t1, t2) in enumerate(zip(leaves, leaves2)):
                if t1.requires_grad and gradof(t1) is not None and gradof(t2) is not None:
                    out.pair("grad(L%d) independent of construction order" % i, gradof(t2), gradof(t1))
        return out


class WrapCase:
    """a computed tensor handed to the Tensor / nn.Parameter constructor (the "scaled random initialisation" idiom
    nn.Parameter(randn(...) * 0.1)) is an operand like any other: programs built on the wrapper can be differentiated and the
    wrapper receives the derivative of what was built on it"""
    prop = PROP

    def __init__(self, spec):
        self.spec = spec
        self.sig = "wrap:%s" % spec["wrap"]

    def run(self, env):
        import synapgrad
        from synapgrad import nn
        out = E.Outcome()
        Tn = T()
        w = Tn(env.arr("w", (2, 2)), requires_grad=True)
        x = Tn(env.arr("x", (1, 2)))
        g = env.arr("g", (1, 2), lo=-2, hi=2)
        inner = w * 0.5
        p = nn.Parameter(inner) if self.spec["wrap"] == "Parameter" else synapgrad.Tensor(inner)
        out.fact("the wrapper of a tensor that requires grad requires grad", bool(p.requires_grad))
        y = x @ p
        y.backward(Tn(g))
        gp = gradof(p)
        out.fact("the wrapper received a gradient", gp is not None)
        if gp is not None:
            exp = np.empty((2, 2), dtype=object)
            for i in range(2):
                for j in range(2):
                    exp[i, j] = x.data[0, i] * g[0, j]
            out.pair("grad(wrapper) = x^T g", gp, exp if env.sym else np.array(exp, dtype=np.float64))
        return out


def enumerate_specs(tier, seed=0):
    specs = [{"wrap": "Parameter"}, {"wrap": "Tensor"}]
    rng = random.Random(1234 + seed)

    def add(progs, n_leaves, masks, frac=1.0):
        for p in progs:
            if frac < 1.0 and rng.random() > frac:
                continue
            for m in masks:
                specs.append({"nodes": [[op, list(a)] for op, a in p], "req": list(m)})
    masks2 = [(1, 1), (1, 0), (0, 1)]
    if tier == "quick":
        add(gen_programs(2, 1, UNARY, BINARY), 2, masks2)
        add(gen_programs(2, 2, UNARY, BINARY), 2, masks2, 0.12)
        add(gen_programs(2, 3, UNARY_SMALL, BINARY_SMALL), 2, [(1, 1), (1, 0)], 0.03)
    else:
        add(gen_programs(2, 1, UNARY, BINARY), 2, masks2 + [(0, 0)])
        add(gen_programs(2, 2, UNARY, BINARY), 2, masks2)
        add(gen_programs(2, 3, UNARY_SMALL, BINARY_SMALL), 2, masks2, 0.25)
        add(gen_programs(3, 2, UNARY_SMALL, BINARY_SMALL), 3, [(1, 1, 1), (1, 0, 1)], 1.0)
        add(gen_programs(2, 4, ["exp", "unbind_mul"], ["add", "mul"]), 2, [(1, 1)], 0.05)
    # hand-written shapes the statement names: diamond, paths of different length, same tensor twice in one op
    extra = [
        [["mul", [0, 0]]],
        [["exp", [0]], ["add", [2, 0]], ["mul", [3, 2]]],
        [["tanh", [0]], ["matmul", [2, 2]], ["add", [3, 0]], ["mul", [4, 2]]],
        [["mul", [0, 1]], ["sum_keep", [2]], ["add", [3, 2]], ["unbind_mul", [4]]],
        [["relu", [0]], ["mul", [2, 1]], ["sub", [3, 2]]],
        [["linear", [0, 1]], ["mse", [2, 0]], ["sum_all_scaled", [3]]],
    ]
    for p in extra:
        for m in masks2:
            specs.append({"nodes": p, "req": list(m)})
    # the same root differentiated twice with different upstream gradients (a sample of the programs above)
    base = [sp_ for sp_ in specs if "req" in sp_ and all(sp_["req"])]
    for sp_ in base[:: (12 if tier == "quick" else 6)]:
        specs.append(dict(sp_, twice=True))
    for sp_ in base[3:: (12 if tier == "quick" else 6)]:
        if len(sp_["nodes"]) >= 2:      # there is an intermediate result to retain
            specs.append(dict(sp_, twice=True, retain=True))
    return specs


def build(spec):
    if "wrap" in spec:
        return WrapCase(spec)
    return Case(spec)


def main(tier, seed):
    t0 = time.time()
    specs = enumerate_specs(tier, seed)
    results = runner.run_pool(__name__, specs, tier, seed, limit=120 if tier == "quick" else 240,
                              optkw={"timeout_ms": 10000 if tier == "quick" else 30000})
    return runner.finish(
        PROP, tier, seed, results, t0,
        bounds={"leaves": "2 (3 in part of the thorough tier), shape (2,2)", "op nodes": "<= 3 (quick) / <= 4 (thorough)",
                "alphabet": {"unary": UNARY, "binary": BINARY},
                "enumeration": "all live 1-node programs; 2- and 3-node programs exhaustively generated then sampled with "
                               "VERIF_SEED (quick: 12% / 3%; thorough: 100% / 25%)"},
        assumptions=["floats are reals", "relu kinks outside the claim",
                     "programs whose forward raises (shape mismatch) are outside the program space"],
        stubs=["BackwardFunction.__call__ wrapped from outside to log invocations"],
        extra_cov={"exhaustive": False},
        rule="one configuration = program (opcodes + wiring) x requires-grad mask; leaf values and root gradient symbolic; "
             "oracle = reverse-mode differentiation of the composed scalar terms")
