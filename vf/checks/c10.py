"""C10 - results and gradients keep the operand's floating dtype and exact shape (trace facts decided per path)."""
from __future__ import annotations

import time

from .. import opcat_tensor, opcat_nn
from ..harness import OpCase
from .. import runner

PROP = "C10"
CATS = {"tensor": opcat_tensor.REG, "nn": opcat_nn.REG}


def enumerate_specs(tier):
    specs = []
    for cname, reg in CATS.items():
        for name, od in reg.items():
            if "C10" not in od.props:
                continue
            cfgs = od.configs(tier)
            if tier == "quick" and len(cfgs) > 24:
                step = max(1, len(cfgs) // 24)
                cfgs = cfgs[::step]
            for args in cfgs:
                n = len(od.inputs(args))
                for dt in ("float32", "float64"):
                    for gdt in ("float32", "float64"):
                        specs.append({"cat": cname, "op": name, "args": args, "variant": {"dtype": dt, "gdtype": gdt}})
                if n == 2 and cname == "tensor":
                    specs.append({"cat": cname, "op": name, "args": args,
                                  "variant": {"dtypes": ["float32", "float64"], "gdtype": "float64"}})
                    specs.append({"cat": cname, "op": name, "args": args,
                                  "variant": {"dtypes": ["float64", "float32"], "gdtype": "float32"}})
    return specs


def build(spec):
    return OpCase(PROP, CATS[spec["cat"]][spec["op"]], spec["args"], spec.get("variant"))


def main(tier, seed):
    t0 = time.time()
    specs = enumerate_specs(tier)
    results = runner.run_pool(__name__, specs, tier, seed)
    return runner.finish(
        PROP, tier, seed, results, t0,
        bounds={"dtypes": ["float32", "float64"], "upstream gradient dtypes": ["float32", "float64"],
                "grid": "op configurations of the C01/C02 catalogues (quick: <= 24 per op, evenly spaced)"},
        assumptions=["the nominal dtype of every symbolic array is propagated with NumPy's own promotion applied to "
                     "zero-size dummies; it is compared with an un-instrumented run at every validated path",
                     "dtype and shape do not depend on operand values except through the explored paths",
                     "the clause 'float32 results agree with float64 results to single precision' is not decided here "
                     "(floats are modelled as reals: both runs yield the same terms)"],
        stubs=["numpy creators inside synapgrad return constant symbolic arrays"],
        rule="one configuration = op x arguments x operand dtype(s) x upstream-gradient dtype; facts: result dtype, "
             "shape and dtype of every .grad (including the root's)")
