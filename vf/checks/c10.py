"""C10 - results and gradients keep the operand's floating dtype and exact shape (trace facts decided per path)."""
from __future__ import annotations

import time

from .. import opcat_tensor, opcat_nn
from ..harness import OpCase, gradof, set_grad
from .. import runner

PROP = "C10"
CATS = {"tensor": opcat_tensor.REG, "nn": opcat_nn.REG}


def enumerate_specs(tier):
    specs = [{"sequence": ["float64", "float32"]}, {"sequence": ["float32", "float64"]},
             {"sequence": ["float64", "float32", "float64"]}]
    for nm in GRAD_HISTORIES:
        for dt in ("float32", "float64"):
            for g1 in ("float32", "float64"):
                for g2 in ("float32", "float64"):
                    specs.append({"gradhistory": {"name": nm, "dt": dt, "g1": g1, "g2": g2}})
    for cname, reg in CATS.items():
        for name, od in reg.items():
            if "C10" not in od.props:
                continue
            cfgs = od.configs(tier)
            if tier == "quick" and len(cfgs) > 24:
                step = max(1, len(cfgs) // 24)
                cfgs = cfgs[::step]
            for ci, args in enumerate(cfgs):
                n = len(od.inputs(args))
                for dt in ("float32", "float64"):
                    for gdt in ("float32", "float64"):
                        specs.append({"cat": cname, "op": name, "args": args, "variant": {"dtype": dt, "gdtype": gdt}})
                if len(od.inputs(args)[0].shape) >= 2 and (tier != "quick" or ci % 2 == 0):
                    # the first operand as a non-contiguous view (transposed / strided): conversions made for the sake of
                    # contiguity must keep the dtype
                    specs.append({"cat": cname, "op": name, "args": args,
                                  "variant": {"dtype": "float32", "gdtype": "float32", "layout": "T" if ci % 4 == 0 else "S"}})
                if n == 2 and cname == "tensor":
                    specs.append({"cat": cname, "op": name, "args": args,
                                  "variant": {"dtypes": ["float32", "float64"], "gdtype": "float64"}})
                    specs.append({"cat": cname, "op": name, "args": args,
                                  "variant": {"dtypes": ["float64", "float32"], "gdtype": "float32"}})
    return specs


class Sequence:
    """dtype facts over a *sequence* of calls in one process: nothing may be remembered from operations on tensors of the
    other floating type (constants, buffers, caches)"""
    prop = PROP

    def __init__(self, order):
        self.order = order
        self.sig = "sequence:" + "-then-".join(order)

    def run(self, env):
        import synapgrad
        from ..harness import T
        from ..symnum import engine as E
        import numpy as np
        Tn = T()
        out = E.Outcome()
        for dt in self.order:
            x = Tn(env.arr("x_" + dt, (2,), np.dtype(dt)), requires_grad=True)
            y = Tn(env.arr("y_" + dt, (2,), np.dtype(dt)))
            forms = {"x * 2.5": x * 2.5, "0.1 + x": 0.1 + x, "x - y": x - y, "-x": -x, "3 - x": 3 - x, "x / 2": x / 2, "1 / (y*y + 1)": 1 / (y * y + 1),
                     "x ** 2": x ** 2, "2 ** x": 2 ** x, "x.sum()": x.sum(), "x.mean()": x.mean(), "x[0]": x[0], "(x*y).max()": (x * y).max()}
            for nm, r in forms.items():
                out.fact("%s on %s operands is %s (%s first)" % (nm, dt, dt, self.order[0]), str(r.dtype) == dt, "got %s" % r.dtype)
            loss = (x * y).sum()
            loss.backward()
            out.fact("grad of a %s tensor is %s (%s first)" % (dt, dt, self.order[0]), str(x.grad.dtype) == dt and tuple(x.grad.shape) == (2,))
        return out


class GradHistory:
    """dtype / shape of .grad over short histories of backward calls: a leaf used as root, accumulation into an existing
    gradient, a retained root differentiated twice, the default seed, resets - with upstream gradients of either floating type"""
    prop = PROP

    def __init__(self, spec):
        self.spec = spec
        self.sig = "gradhistory:%(name)s:%(dt)s:%(g1)s:%(g2)s" % spec

    def run(self, env):
        from ..harness import T
        from ..symnum import engine as E
        import numpy as np
        Tn = T()
        out = E.Outcome()
        sp = self.spec
        dt, g1, g2 = np.dtype(sp["dt"]), np.dtype(sp["g1"]), np.dtype(sp["g2"])
        other = np.dtype("float64" if sp["dt"] == "float32" else "float32")
        x = Tn(env.arr("x", (2,), dt), requires_grad=True)
        w = Tn(env.arr("w", (1, 2), other), requires_grad=True)       # a broadcast operand of the other floating type
        watch = [("x", x), ("w", w)]

        def seed(nm, shape, d):
            return Tn(env.arr(nm, shape, d, lo=-2, hi=2))
        name = sp["name"]
        if name == "leaf_root_twice":
            x.backward(seed("s1", (2,), g1))
            x.backward(seed("s2", (2,), g2))
        elif name == "accumulate":
            (x * 2.0).backward(seed("s1", (2,), g1))
            (x * 3.0).backward(seed("s2", (2,), g2))
        elif name == "leaf_root_after_graph":
            (x * 2.0).backward(seed("s1", (2,), g1))
            x.backward(seed("s2", (2,), g2))
        elif name == "mixed_operands":
            (x * w).backward(seed("s1", (1, 2), g1))
            (x + w).backward(seed("s2", (1, 2), g2))
        elif name == "retained_root_twice":
            y = x * 2.0
            y.retain_grad()
            y.backward(seed("s1", (2,), g1))
            y.backward(seed("s2", (2,), g2))
            watch.append(("y", y))
        elif name == "default_seed":
            (x * 2.0).sum().backward()
            z = (x * x).mean()
            z.backward()
            r = x[0]
            r.backward()
        elif name == "reset_between":
            (x * 2.0).backward(seed("s1", (2,), g1))
            x.zero_()
            x.backward(seed("s2", (2,), g2))
        elif name == "foreign_buffer_then_reset":
            # a gradient of the other floating type was put on the tensor (assignment through the public setter); a reset
            # followed by a backward must leave a gradient of the tensor's own type again
            x.grad = seed("s0", (2,), other)
            x.zero_()
            (x * 2.0).backward(seed("s1", (2,), g1))
        elif name == "foreign_buffer_then_accumulate":
            # the same assignment followed directly by a backward that accumulates into it (the assignment may also be
            # refused, as PyTorch does for a gradient of another type)
            try:
                x.grad = seed("s0", (2,), other)
            except (RuntimeError, TypeError, ValueError) as e:
                out.rejected = "%s: %s" % (type(e).__name__, e)
                return out
            (x * 2.0).backward(seed("s1", (2,), g1))
        elif name == "leaf0d_root_twice_then_mixed":
            # a 0-d leaf used as the root of backward twice (default seed, then an explicit one), then reached through a graph
            # with an operand of the other floating type: the accumulated gradient stays an array of the leaf's own type
            x0 = Tn(env.arr("x0", (), dt), requires_grad=True)
            x0.backward()
            x0.backward(seed("s1", (), g1))
            (x0 * w).backward(seed("s2", (1, 2), g2))
            watch.append(("x0", x0))
        elif name == "recast_then_reset":
            # the tensor's data is re-bound in the other floating type after a first backward (what the initialisers do with
            # parameters); after a reset the gradient follows the tensor's current type
            (x * 2.0).backward(seed("s1", (2,), g1))
            x.data = x.data.astype(other)
            x.zero_()
            (x * 3.0).backward(seed("s2", (2,), g2))
        elif name == "interior_then_root":
            y = x * 2.0
            z = y.exp()
            z.backward(seed("s1", (2,), g1))
            y.backward(seed("s2", (2,), g2))
        for nm, t in watch:
            gr = gradof(t)
            if gr is None:
                if nm == "w" and name not in ("mixed_operands", "leaf0d_root_twice_then_mixed"):
                    continue
                if nm == "x" and name == "leaf0d_root_twice_then_mixed":
                    continue        # not used in that history
                out.fact("%s has a gradient" % nm, False, "no .grad after the history")
                continue
            out.fact("grad(%s) keeps dtype and shape over the history" % nm,
                     str(gr.dtype) == str(t.dtype) and tuple(gr.shape) == tuple(t.shape),
                     ".grad dtype %s shape %s for a %s tensor of shape %s (history %s, upstream gradients %s then %s)" % (
                         gr.dtype, tuple(gr.shape), t.dtype, tuple(t.shape), name, g1, g2))
        return out


GRAD_HISTORIES = ["leaf_root_twice", "accumulate", "leaf_root_after_graph", "mixed_operands", "retained_root_twice",
                  "default_seed", "reset_between", "interior_then_root", "foreign_buffer_then_reset", "recast_then_reset",
                  "foreign_buffer_then_accumulate", "leaf0d_root_twice_then_mixed"]


def build(spec):
    if "gradhistory" in spec:
        return GradHistory(spec["gradhistory"])
    if "sequence" in spec:
        return Sequence(spec["sequence"])
    return OpCase(PROP, CATS[spec["cat"]][spec["op"]], spec["args"], spec.get("variant"))


def main(tier, seed):
    t0 = time.time()
    specs = enumerate_specs(tier)
    results = runner.run_pool(__name__, specs, tier, seed, chain=4)
    return runner.finish(
        PROP, tier, seed, results, t0,
        bounds={"dtypes": ["float32", "float64"], "upstream gradient dtypes": ["float32", "float64"],
                "grid": "op configurations of the C01/C02 catalogues (quick: <= 24 per op, evenly spaced)"},
        assumptions=["the nominal dtype of every symbolic array is propagated with NumPy's own promotion applied to "
                     "zero-size dummies; it is compared with an un-instrumented run at every validated path",
                     "dtype and shape do not depend on operand values except through the explored paths",
                     "the clause 'float32 results agree with float64 results to single precision' is not decided here "
                     "(floats are modelled as reals: both runs yield the same terms)"],
        stubs=["numpy creators inside synapgrad return constant symbolic arrays"],
        rule="one configuration = op x arguments x operand dtype(s) x upstream-gradient dtype; facts: result dtype, "
             "shape and dtype of every .grad (including the root's)")
