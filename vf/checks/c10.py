"""C10 - results and gradients keep the operand's floating dtype and exact shape (trace facts decided per path)."""
from __future__ import annotations

import time

from .. import opcat_tensor, opcat_nn
from ..harness import OpCase
from .. import runner

PROP = "C10"
CATS = {"tensor": opcat_tensor.REG, "nn": opcat_nn.REG}


def enumerate_specs(tier):
    specs = [{"sequence": ["float64", "float32"]}, {"sequence": ["float32", "float64"]},
             {"sequence": ["float64", "float32", "float64"]}]
    for cname, reg in CATS.items():
        for name, od in reg.items():
            if "C10" not in od.props:
                continue
            cfgs = od.configs(tier)
            if tier == "quick" and len(cfgs) > 24:
                step = max(1, len(cfgs) // 24)
                cfgs = cfgs[::step]
            for args in cfgs:
                n = len(od.inputs(args))
                for dt in ("float32", "float64"):
                    for gdt in ("float32", "float64"):
                        specs.append({"cat": cname, "op": name, "args": args, "variant": {"dtype": dt, "gdtype": gdt}})
                if n == 2 and cname == "tensor":
                    specs.append({"cat": cname, "op": name, "args": args,
                                  "variant": {"dtypes": ["float32", "float64"], "gdtype": "float64"}})
                    specs.append({"cat": cname, "op": name, "args": args,
                                  "variant": {"dtypes": ["float64", "float32"], "gdtype": "float32"}})
    return specs


class Sequence:
    """dtype facts over a *sequence* of calls in one process: nothing may be remembered from operations on tensors of the
    other floating type (constants, buffers, caches)"""
    prop = PROP

    def __init__(self, order):
        self.order = order
        self.sig = "sequence:" + "-then-".join(order)

    def run(self, env):
        import synapgrad
        from ..harness import T
        from ..symnum import engine as E
        import numpy as np
        Tn = T()
        out = E.Outcome()
        for dt in self.order:
            x = Tn(env.arr("x_" + dt, (2,), np.dtype(dt)), requires_grad=True)
            y = Tn(env.arr("y_" + dt, (2,), np.dtype(dt)))
            forms = {"x * 2.5": x * 2.5, "0.1 + x": 0.1 + x, "x - y": x - y, "-x": -x, "3 - x": 3 - x, "x / 2": x / 2, "1 / (y*y + 1)": 1 / (y * y + 1),
                     "x ** 2": x ** 2, "2 ** x": 2 ** x, "x.sum()": x.sum(), "x.mean()": x.mean(), "x[0]": x[0], "(x*y).max()": (x * y).max()}
            for nm, r in forms.items():
                out.fact("%s on %s operands is %s (%s first)" % (nm, dt, dt, self.order[0]), str(r.dtype) == dt, "got %s" % r.dtype)
            loss = (x * y).sum()
            loss.backward()
            out.fact("grad of a %s tensor is %s (%s first)" % (dt, dt, self.order[0]), str(x.grad.dtype) == dt and tuple(x.grad.shape) == (2,))
        return out


def build(spec):
    if "sequence" in spec:
        return Sequence(spec["sequence"])
    return OpCase(PROP, CATS[spec["cat"]][spec["op"]], spec["args"], spec.get("variant"))


def main(tier, seed):
    t0 = time.time()
    specs = enumerate_specs(tier)
    results = runner.run_pool(__name__, specs, tier, seed, chain=4)
    return runner.finish(
        PROP, tier, seed, results, t0,
        bounds={"dtypes": ["float32", "float64"], "upstream gradient dtypes": ["float32", "float64"],
                "grid": "op configurations of the C01/C02 catalogues (quick: <= 24 per op, evenly spaced)"},
        assumptions=["the nominal dtype of every symbolic array is propagated with NumPy's own promotion applied to "
                     "zero-size dummies; it is compared with an un-instrumented run at every validated path",
                     "dtype and shape do not depend on operand values except through the explored paths",
                     "the clause 'float32 results agree with float64 results to single precision' is not decided here "
                     "(floats are modelled as reals: both runs yield the same terms)"],
        stubs=["numpy creators inside synapgrad return constant symbolic arrays"],
        rule="one configuration = op x arguments x operand dtype(s) x upstream-gradient dtype; facts: result dtype, "
             "shape and dtype of every .grad (including the root's)")
