"""C18 - dataset split, batching and one-hot encoding lose or misalign no sample.
E1: split_dataset (symbolic sample tags, symbolic split fractions, enumerated permutations) and one_hot_encode
(symbolic labels, all weak orderings); E2: DataLoader through CrossHair; E3: DataLoader index arithmetic for n <= 10^6."""
from __future__ import annotations

import itertools
import math
import os
import time
from concurrent.futures import ThreadPoolExecutor

import numpy as np

from ..harness import sig_of
from ..symnum import engine as E
from ..symnum import scalar as sc
from ..symnum.scalar import S, CTX
from .. import runner, e2, lemmas, common
from . import c07

PROP = "C18"


def sfloor(x):
    return math.floor(x)


class SplitCase:
    prop = PROP
    needs_rng_stub = True      # np.random.shuffle applies the enumerated permutation in the plain run too

    def __init__(self, spec):
        self.spec = spec
        self.sig = sig_of("split_dataset", spec, None)

    def run(self, env):
        from synapgrad.nn.utils.data import split_dataset
        sp = self.spec
        n = sp["n"]
        out = E.Outcome()
        X = env.arr("X", (n, 2))
        y = env.arr("y", (n,))
        perm = sp["perm"]
        if sp.get("defaults"):
            # the documented defaults: a fifth of the samples for testing, no validation set, order kept
            ts, vs = 0.2, None
            train, test, val = split_dataset(X, y)
        else:
            ts = env.scalar("test_split", lo=0, hi=1)
            vs = env.scalar("val_split", lo=0, hi=1) if sp["val"] else None
            CTX.rng_perm = (lambda k: list(perm)) if perm is not None else None
            try:
                train, test, val = split_dataset(X, y, test_split=ts, val_split=vs, shuffle=perm is not None)
            finally:
                CTX.rng_perm = None
        # reference: floor-rule sizes, consecutive slices of the (permuted) index list
        idx = list(perm) if perm is not None else list(range(n))
        nt = sfloor(ts * n)
        tv = idx[nt:]
        te = idx[:nt]
        if sp["val"]:
            nv = sfloor(vs * len(tv))
            va, tr = tv[:nv], tv[nv:]
        else:
            va, tr = None, tv

        def rows(ix, arr):
            mk = (lambda shp: np.empty(shp, dtype=object if env.sym else np.float64))
            o = mk((len(ix),) + arr.shape[1:])
            for k, i in enumerate(ix):
                o[k] = arr[i]
            return o
        for name, got, ix in (("train", train, tr), ("test", test, te)) + ((("validation", val, va),) if sp["val"] else ()):
            out.fact("%s set has floor-rule size" % name, len(got[0]) == len(ix) and len(got[1]) == len(ix),
                     "sizes %d/%d, floor rule %d" % (len(got[0]), len(got[1]), len(ix)))
            if len(got[0]) == len(ix) and len(ix) > 0:
                out.pair("%s features are the expected samples in order" % name, got[0], rows(ix, X))
                out.pair("%s labels stay paired with their features" % name, got[1], rows(ix, y))
        if not sp["val"]:
            out.fact("no validation set without val_split", val is None)
        total = len(train[0]) + len(test[0]) + (len(val[0]) if val is not None else 0)
        out.fact("every sample is in exactly one set", total == n and sorted(tr + te + (va or [])) == list(range(n)))
        return out


class OneHotCase:
    prop = PROP
    allow_ties = True        # equal labels are the ordinary case here, not a kink

    def __init__(self, spec):
        self.spec = spec
        self.sig = sig_of("one_hot_encode", spec, None)

    def run(self, env):
        from synapgrad.nn.utils.data import one_hot_encode
        n = self.spec["n"]
        out = E.Outcome()
        r = self.spec.get("range", 3)
        # integer variant: the real-valued pre-images only select the integer (kind "data": exactly integral pre-images are no
        # separate branch); real variant: equal labels are ordinary branches (kind "hyper")
        y = env.arr("y", (n,), np.float64, lo=-r, hi=r, lo_strict=True, hi_strict=True, kind="data" if self.spec.get("int") else "hyper")
        if self.spec.get("int"):
            # integer labels (the usual case): the symbolic values are cast concolically, so that the solver-checked path
            # coverage enumerates every integer label vector in the range, negative labels and gaps included
            y = y.astype(np.int64)
            if self.spec.get("as_list"):
                y = [int(v) for v in y]
        enc = one_hot_encode(y)
        vals = [y[i] for i in range(n)]
        # reference: rank of label i among the sorted distinct labels
        distinct = []
        for v in vals:
            if not any(bool(v == d) for d in distinct):
                distinct.append(v)
        ranks = [sum(1 for d in distinct if bool(d < v)) for v in vals]
        out.fact("shape is (n, number of distinct labels)", tuple(np.shape(enc)) == (n, len(distinct)),
                 "got %s, expected %s" % (np.shape(enc), (n, len(distinct))))
        if tuple(np.shape(enc)) == (n, len(distinct)):
            ok = all(int(enc[i][j]) == (1 if j == ranks[i] else 0) for i in range(n) for j in range(len(distinct)))
            out.fact("row i is the unit vector at the rank of label i", ok, "encoded %s, ranks %s" % (np.asarray(enc).tolist(), ranks))
        return out


DL = '''
from typing import List
from synapgrad.nn.utils.data import DataLoader, DataLoaderCallback
BS = %(bs)d
USE_T = %(use_t)r


CALLS = [0]


class Tag(DataLoaderCallback):
    def __call__(self, dl, X, y):
        CALLS[0] += 1
        return ([v + 1000 for v in X], list(y))


def %(name)s(X: List[int], idx: int) -> bool:
    """
    pre: len(X) <= %(maxn)d
    pre: -7 <= idx <= 7
    post: __return__ == True
    """
    _PATHS[0] += 1
    CALLS[0] = 0
    y = [x * 2 + 1 for x in X]
    dl = DataLoader(X, y, BS, Tag() if USE_T else None)
    n = len(X)
    if len(dl) != n // BS:
        return False
    for rep in range(2):                       # re-iterable from the start
        got = [b for b in dl]
        if len(got) != n // BS:
            return False
        for i, (xb, yb) in enumerate(got):
            xs = X[i * BS:(i + 1) * BS]
            if USE_T:
                xs = [v + 1000 for v in xs]
            if list(xb) != xs or list(yb) != y[i * BS:(i + 1) * BS] or len(xb) != BS:
                return False
    if USE_T and CALLS[0] != 2 * (n // BS):   # every batch of every pass goes through the transform
        return False
    if n >= 1:                                 # the loader serves the data it was given, as it is now: a sample changed in place
        X[0] = X[0] + 7                        # between two passes shows up in the next pass (nothing is remembered from the last)
        y[0] = y[0] + 7
        got = [b for b in dl]
        for i, (xb, yb) in enumerate(got):
            xs = X[i * BS:(i + 1) * BS]
            if USE_T:
                xs = [v + 1000 for v in xs]
            if list(xb) != xs or list(yb) != y[i * BS:(i + 1) * BS]:
                return False
    # direct indexing: batch idx for 0 <= idx < len(dl); anything a loader hands out is a full, aligned batch, so an index
    # outside the range is refused (a negative index may also count from the end) - never a short or empty batch
    nb = n // BS
    CALLS[0] = 0
    try:
        xb, yb = dl[idx]
    except IndexError:
        if 0 <= idx < nb:
            return False
    else:
        j = idx if idx >= 0 else nb + idx
        if not (0 <= j < nb):
            return False
        xs = X[j * BS:(j + 1) * BS]
        if USE_T:
            xs = [v + 1000 for v in xs]
        if list(xb) != xs or list(yb) != y[j * BS:(j + 1) * BS] or len(xb) != BS:
            return False
    it = iter(dl)                              # a fresh iteration restarts even after a partial one
    if n // BS >= 1:
        next(it)
        if len([b for b in dl]) != n // BS:
            return False
    # nested iteration over the same loader: every pass - the outer one too - yields all its batches
    pairs = 0
    outer = 0
    for a in dl:
        outer += 1
        for b in dl:
            pairs += 1
    if outer != n // BS or pairs != (n // BS) * (n // BS):
        return False
    return True


def %(name)s_twin(X: List[int], idx: int) -> bool:
    """
    pre: len(X) <= %(maxn)d
    pre: -7 <= idx <= 7
    post: False
    """
    return True
'''


def enumerate_specs(tier):
    specs = []
    nmax = 3 if tier == "quick" else 5
    for n in range(1, nmax + 1):
        perms = [None] + [list(p) for p in itertools.permutations(range(n))]
        if tier == "quick" and n == 3:
            perms = perms[:1] + perms[1::2]
        if n == 4:
            perms = perms[:1] + perms[1::5]
        if n == 5:
            perms = perms[:1] + perms[1::29]
        for perm in perms:
            for val in (False, True):
                specs.append({"kind": "split", "n": n, "perm": perm, "val": val})
    for n in (4, 5, 10) if tier != "quick" else (5,):
        specs.append({"kind": "split", "n": n, "perm": None, "val": False, "defaults": True})
    for n in range(1, (3 if tier == "quick" else 4) + 1):       # 5 labels have 541 weak orderings: beyond the path budget
        specs.append({"kind": "onehot", "n": n})
        if n <= (2 if tier == "quick" else 3):       # labels -2..2 (n <= 2) or -1..1 (n = 3, thorough)
            specs.append({"kind": "onehot", "n": n, "int": True, "range": 3 if n <= 2 else 2})
    specs.append({"kind": "onehot", "n": 2, "int": True, "as_list": True})
    return specs


def build(spec):
    spec = dict(spec)
    kind = spec.pop("kind")
    return SplitCase(spec) if kind == "split" else OneHotCase(spec)


def main(tier, seed):
    t0 = time.time()
    specs = enumerate_specs(tier)
    results = runner.run_pool(__name__, specs, tier, seed)
    # E2: DataLoader
    maxn = 4 if tier == "quick" else 7
    files = []
    for bs in range(1, (4 if tier == "quick" else 6) + 1):
        for use_t in (False, True):
            name = "dl_bs%d_%s" % (bs, "t" if use_t else "n")
            files.append((e2.write_module("c18_" + name, DL % {"bs": bs, "use_t": use_t, "name": name, "maxn": maxn}), name, bs, use_t))
    timeout = 60 if tier == "quick" else 600

    def job(item):
        path, name, bs, use_t = item
        r = e2.run_one(path, name, timeout)
        tw = e2.run_one(path, name + "_twin", 20)
        r.update(twin=tw["status"], path=path, kind="DataLoader", first="bs=%d,transform=%s" % (bs, use_t))
        return r
    with ThreadPoolExecutor(max_workers=int(os.environ.get("VERIF_PROCS", "16"))) as ex:
        dl_results = list(ex.map(job, files))
    findings = runner.load_findings()
    extra_lines = []
    extra_viol = 0
    dl_conf = 0
    for r in dl_results:
        sig = "DataLoader:%s" % r["first"]
        if r["status"] == "confirmed":
            dl_conf += 1
        elif r["status"] == "counterexample":
            viol, detail = e2.replay_call(r["path"], r["call"]) if r.get("call") else (False, "no call parsed")
            if not viol:
                r["status"] = "unknown"
                continue
            k = runner.match_known(PROP, sig + " " + r["call"], "", findings)
            if k is not None:
                extra_lines.append("KNOWN-FINDING: property=%s %s (e.g. %s %s)" % (PROP, k["what"], sig, r["call"]))
                continue
            extra_viol += 1
            path = runner.write_replay(PROP, {"sig": sig + " " + r["call"], "module": None, "spec": {"harness": r["path"], "call": r["call"]}},
                                       {"label": "DataLoader", "kind": "crosshair", "detail": r["message"], "replay": detail})
            extra_lines.append("VIOLATION property=%s replay=%s" % (PROP, path))
            extra_lines.append("  %s: %s" % (sig, r["message"][:240]))
            extra_lines.append("  reproduced: %s" % detail[:240])
    # E3: index arithmetic
    try:
        lem = lemmas.dataloader_lemma(tier)
    except Exception as e:  # noqa: BLE001
        lem = {"lemma": "DataLoader slicing", "error": repr(e), "queries": 0, "both_unsat": 0, "sat_indices": []}
    if lem.get("sat_indices"):
        extra_viol += 1
        path = runner.write_replay(PROP, {"sig": "lemma:DataLoader slicing", "module": None, "spec": lem}, {"label": "lemma", "kind": "smt", "detail": str(lem)})
        extra_lines.append("VIOLATION property=%s replay=%s" % (PROP, path))
        extra_lines.append("  E3 lemma 'DataLoader slicing' has a satisfiable negation: %s" % (lem,))
    extra_lines.append("E2 DataLoader: %d/%d partitions confirmed over all paths; E3 lemma: %s/%s queries unsat in both solvers" % (
        dl_conf, len(dl_results), lem.get("both_unsat"), lem.get("queries")))
    code = runner.finish(
        PROP, tier, seed, results, t0,
        bounds={"split_dataset": "n <= %d samples with 2 features, all permutations (n <= 3; sampled for n = 4), split fractions symbolic "
                                 "in [0,1]" % (3 if tier == "quick" else 4),
                "one_hot_encode": "n <= %d symbolic real labels, every weak ordering; n <= 2 integer labels in -2..2 / n = 3 in -1..1 (array and list), every label vector" % (3 if tier == "quick" else 4),
                "DataLoader (CrossHair)": "lists of <= %d symbolic ints, batch size 1..%d, with and without transform" % (maxn, 4 if tier == "quick" else 6),
                "DataLoader (SMT lemma)": lem.get("bounds")},
        assumptions=["np.random.shuffle applies an arbitrary permutation (enumerated)", "floats are reals",
                     "floor of a symbolic fraction is concolic: the explorer enumerates every reachable size"],
        stubs=["np.random.shuffle -> enumerated permutation", "pkbar progress bar"],
        rule="E1 configurations (split x permutation x val on/off, one-hot n) + CrossHair partitions + SMT lemma queries",
        extra_cov={"crosshair_partitions": len(dl_results), "crosshair_confirmed": dl_conf,
                   "crosshair_paths": sum(r.get("paths", 0) for r in dl_results),
                   "crosshair_inconclusive": [{"partition": r["first"], "why": r["message"][:120]} for r in dl_results if r["status"] == "unknown"][:6],
                   "smt_lemma": lem},
        extra_lines=extra_lines, extra_violations=extra_viol)
    return code
