"""C14 - fused operations equal the compositions their documentation equates them with (values and gradients).
Both sides are the code under test; no external oracle."""
from __future__ import annotations

import itertools
import time

import numpy as np

from ..harness import T, Inp, sig_of, elem_names, EpsZero, _exp_all, gradof, set_grad
from ..opcat_nn import geo2d, out_len
from ..symnum import engine as E
from ..symnum import scalar as sc
from ..symnum import diff
from .. import runner

PROP = "C14"


def NF():
    import synapgrad.nn.functional as F
    return F


def SG():
    import synapgrad
    return synapgrad


def NN():
    from synapgrad import nn
    return nn


def labels_t(lab):
    return T()(np.array(lab, dtype=np.int32))


IDENT = {}


def ident(name):
    def deco(cls):
        cls.name = name
        IDENT[name] = cls()
        return cls
    return deco


class Identity:
    log_valued = False
    eps_zero = False

    def configs(self, tier):
        return [{}]

    def inputs(self, a):
        raise NotImplementedError

    def lhs(self, a, ts):
        raise NotImplementedError

    def rhs(self, a, ts):
        raise NotImplementedError


@ident("cross_entropy = nll(log_softmax)")
class _CE(Identity):
    log_valued = True
    eps_zero = True

    def configs(self, tier):
        out = []
        for n, c in ([(2, 2), (2, 3)] if tier == "quick" else [(1, 2), (2, 2), (2, 3), (3, 2)]):
            labs = list(itertools.product(range(c), repeat=n))
            for lab in (labs[::3] if tier == "quick" else labs):
                out.append({"n": n, "c": c, "labels": list(lab)})
        return out

    def inputs(self, a):
        return [Inp("x", (a["n"], a["c"]))]

    def lhs(self, a, ts):
        return NF().cross_entropy(ts[0], labels_t(a["labels"]))

    def rhs(self, a, ts):
        return NF().nll_loss(NF().log_softmax(ts[0], 1), labels_t(a["labels"]))


@ident("log_softmax = log(softmax)")
class _LS(Identity):
    log_valued = True
    eps_zero = True

    def configs(self, tier):
        out = []
        for s in ([(3,), (2, 3)] if tier == "quick" else [(3,), (2, 3), (2, 2, 2)]):
            for d in range(-len(s), len(s)):
                out.append({"shape": list(s), "dim": d})
        return out

    def inputs(self, a):
        return [Inp("x", a["shape"])]

    def lhs(self, a, ts):
        return NF().log_softmax(ts[0], a["dim"])

    def rhs(self, a, ts):
        return NF().softmax(ts[0], a["dim"]).log()


@ident("bce_with_logits = bce(sigmoid)")
class _BCEL(Identity):
    """both sides are affine in the target t: values are compared at t = 0 and t = 1 (plus d2/dt2 = 0),
    input gradients with symbolic t (they contain no logarithm)"""
    log_valued = True
    eps_zero = True

    def configs(self, tier):
        out = []
        for s in ([(2,)] if tier == "quick" else [(2,), (2, 2), (3,)]):
            for tmode in ("t=0", "t=1", "mixed01", "symbolic"):
                out.append({"shape": list(s), "t": tmode})
        return out

    def inputs(self, a):
        # |x| <= 10: PyTorch's BCE clamps its log terms at -100, so the identity itself ends where sigmoid(x) < e^-100; within
        # the bound the clamp is provably inactive (coarse exp / log landmarks)
        ins = [Inp("x", a["shape"], lo=-10, hi=10)]
        if a["t"] == "symbolic":
            ins.append(Inp("t", a["shape"], differentiable=False, lo=0, hi=1))
        return ins

    def target(self, a, ts):
        if a["t"] == "symbolic":
            return ts[1]
        n = int(np.prod(a["shape"], dtype=int))
        vals = {"t=0": [0.0] * n, "t=1": [1.0] * n, "mixed01": [float(i % 2) for i in range(n)]}[a["t"]]
        return T()(self.env.const(np.array(vals, dtype=np.float32).reshape(a["shape"]), np.float32))

    def lhs(self, a, ts):
        return NF().binary_cross_entropy_with_logits(ts[0], self.target(a, ts))

    def rhs(self, a, ts):
        return NF().binary_cross_entropy(NF().sigmoid(ts[0]), self.target(a, ts))


@ident("linear = x @ W.T + b")
class _Lin(Identity):
    def configs(self, tier):
        out = []
        for n, i, o in ([(2, 3, 2)] if tier == "quick" else [(2, 3, 2), (1, 2, 1), (3, 1, 2)]):
            for bias in (True, False):
                out.append({"n": n, "in": i, "out": o, "bias": bias})
        return out

    def inputs(self, a):
        ins = [Inp("x", (a["n"], a["in"])), Inp("w", (a["out"], a["in"]))]
        if a["bias"]:
            ins.append(Inp("b", (a["out"],)))
        return ins

    def lhs(self, a, ts):
        return NF().linear(ts[0], ts[1], ts[2] if a["bias"] else None)

    def rhs(self, a, ts):
        r = ts[0] @ ts[1].transpose(0, 1)
        return r + ts[2] if a["bias"] else r


@ident("addmm = a + b @ c")
class _Addmm(Identity):
    def configs(self, tier):
        return [{"a": list(x), "b": list(y), "c": list(z)} for x, y, z in
                [((2, 2), (2, 3), (3, 2)), ((2,), (2, 3), (3, 2)), ((), (2, 1), (1, 2)), ((2, 1), (2, 2), (2, 3))]] + \
               [{"a": list(x), "b": list(y), "c": list(z), "ext": True} for x, y, z in
                # batched matrix operands are in the domain of "a + b @ c"; if addmm accepts them too, the two sides agree
                [((2, 2), (2, 2, 3), (2, 3, 2)), ((2, 2), (2, 3), (2, 3, 2)), ((2,), (1, 2, 3), (2, 3, 2)), ((2,), (2, 1, 3), (3, 2))]]

    def may_reject(self, a):
        return bool(a.get("ext"))

    def inputs(self, a):
        return [Inp("a", a["a"]), Inp("b", a["b"]), Inp("c", a["c"])]

    def lhs(self, a, ts):
        return SG().addmm(ts[0], ts[1], ts[2])

    def rhs(self, a, ts):
        return ts[0] + ts[1] @ ts[2]


@ident("conv2d = unfold + matmul")
class _Conv(Identity):
    def configs(self, tier):
        out = []
        geos = geo2d("thorough")
        geos = geos[::12] if tier == "quick" else geos[::3]
        for idx, (hw, k, s, p, d) in enumerate(geos):
            out.append({"N": 1 + idx % 2, "Ci": 1 + (idx // 2) % 2, "Co": 1 + (idx // 3) % 2, "H": hw[0], "W": hw[1],
                        "k": list(k), "s": list(s), "p": list(p), "d": list(d), "bias": bool(idx % 2)})
        return out

    def inputs(self, a):
        ins = [Inp("x", (a["N"], a["Ci"], a["H"], a["W"])), Inp("w", (a["Co"], a["Ci"], a["k"][0], a["k"][1]))]
        if a["bias"]:
            ins.append(Inp("b", (a["Co"],)))
        return ins

    def lhs(self, a, ts):
        return NF().conv2d(ts[0], ts[1], ts[2] if a["bias"] else None, tuple(a["s"]), tuple(a["p"]), tuple(a["d"]))

    def rhs(self, a, ts):
        k, s, p, d = (tuple(a[q]) for q in "kspd")
        lH, lW = out_len(a["H"], k[0], s[0], p[0], d[0]), out_len(a["W"], k[1], s[1], p[1], d[1])
        u = NF().unfold(ts[0], kernel_size=k, dilation=d, stride=s, padding=p)       # (N, Ci*kh*kw, L)
        wm = ts[1].reshape((a["Co"], -1))
        o = wm @ u                                                                     # (N, Co, L)
        if a["bias"]:
            o = o + ts[2].reshape((1, a["Co"], 1))
        return o.reshape((a["N"], a["Co"], lH, lW))


class _Pool(Identity):
    is_max = True

    def configs(self, tier):
        out = []
        geos = geo2d("thorough")
        geos = geos[::9] if tier == "quick" else geos[::2]
        for idx, (hw, k, s, p, d) in enumerate(geos):
            if self.is_max and (p[0] or p[1]):
                continue
            nwin = out_len(hw[0], k[0], s[0], p[0], d[0]) * out_len(hw[1], k[1], s[1], p[1], d[1])
            if self.is_max and (k[0] * k[1]) ** nwin > (32 if tier == "quick" else 256):
                continue
            out.append({"N": 1, "C": 1 if self.is_max else 1 + idx % 2, "H": hw[0], "W": hw[1], "k": list(k), "s": list(s),
                        "p": list(p), "d": list(d)})
        # the documented int spelling of square geometries (the layer classes turn ints into pairs, the functional form does not)
        out.append({"N": 1, "C": 1, "H": 2, "W": 3 if not self.is_max else 2, "k": [2, 2], "s": [1, 1], "p": [0, 0], "d": [1, 1], "ints": True})
        if not self.is_max:
            out.append({"N": 1, "C": 2, "H": 3, "W": 3, "k": [2, 2], "s": [2, 2], "p": [1, 1], "d": [1, 1], "ints": True})
        return out

    def inputs(self, a):
        return [Inp("x", (a["N"], a["C"], a["H"], a["W"]))]

    def lhs(self, a, ts):
        f = NF().max_pool2d if self.is_max else NF().avg_pool2d
        if a.get("ints"):
            return f(ts[0], a["k"][0], a["s"][0], a["p"][0], a["d"][0])
        return f(ts[0], tuple(a["k"]), tuple(a["s"]), tuple(a["p"]), tuple(a["d"]))

    def rhs(self, a, ts):
        k, s, p, d = (tuple(a[q]) for q in "kspd")
        lH, lW = out_len(a["H"], k[0], s[0], p[0], d[0]), out_len(a["W"], k[1], s[1], p[1], d[1])
        u = NF().unfold(ts[0], kernel_size=k, dilation=d, stride=s, padding=p)       # (N, C*kh*kw, L)
        u = u.reshape((a["N"], a["C"], k[0] * k[1], lH * lW))
        r = u.max(2) if self.is_max else u.mean(2)
        return r.reshape((a["N"], a["C"], lH, lW))


@ident("max_pool2d = windows + max")
class _MaxPool(_Pool):
    is_max = True


@ident("avg_pool2d = windows + mean")
class _AvgPool(_Pool):
    is_max = False


SH = [(), (3,), (2, 1), (1, 3), (2, 3)]


@ident("a - b = a + (-b)")
class _Sub(Identity):
    def configs(self, tier):
        from ..harness import broadcastable
        return [{"a": list(x), "b": list(y)} for x in SH for y in SH if broadcastable(x, y)]

    def inputs(self, a):
        return [Inp("a", a["a"]), Inp("b", a["b"])]

    def lhs(self, a, ts):
        return ts[0] - ts[1]

    def rhs(self, a, ts):
        import synapgrad.functional as F
        return ts[0] + F.neg(ts[1])


@ident("a / b = a * b**-1")
class _Div(_Sub):
    def inputs(self, a):
        return [Inp("a", a["a"]), Inp("b", a["b"], nonzero=True)]

    def lhs(self, a, ts):
        return ts[0] / ts[1]

    def rhs(self, a, ts):
        return ts[0] * ts[1] ** -1


@ident("scalar forms: c - a = c + (-a), a - c = a + (-c), c / a = c * a**-1, a / c = a * c**-1")
class _ScalarForms(Identity):
    """the reflected and scalar operator forms of the two identities above (c is a Python number: 0.5, exactly representable
    together with its reciprocal)"""

    def configs(self, tier):
        return [{"a": list(x), "form": f} for x in SH[:4] for f in ("c-a", "a-c", "c/a", "a/c")]

    def inputs(self, a):
        return [Inp("a", a["a"], nonzero=True)]

    def lhs(self, a, ts):
        x, c = ts[0], 0.5
        return {"c-a": lambda: c - x, "a-c": lambda: x - c, "c/a": lambda: c / x, "a/c": lambda: x / c}[a["form"]]()

    def rhs(self, a, ts):
        import synapgrad.functional as F
        x, c = ts[0], 0.5
        return {"c-a": lambda: c + F.neg(x), "a-c": lambda: x + (-c), "c/a": lambda: c * x ** -1, "a/c": lambda: x * 2.0}[a["form"]]()


@ident("pool1d = windows + max / mean")
class _Pool1d(Identity):
    """max_pool1d / avg_pool1d (no padding) = the sliding windows of Tensor.unfold reduced over their last dim"""

    def configs(self, tier):
        out = []
        for kind in ("max", "avg"):
            for (L_, k, s) in ((3, 2, 1), (4, 2, 2)) + (((5, 3, 2), (4, 1, 3)) if tier != "quick" else ()):
                out.append({"kind": kind, "L": L_, "k": k, "s": s, "N": 1, "C": 1 if kind == "max" else 2})
        return out

    def inputs(self, a):
        return [Inp("x", (a["N"], a["C"], a["L"]))]

    def lhs(self, a, ts):
        f = NF().max_pool1d if a["kind"] == "max" else NF().avg_pool1d
        return f(ts[0], a["k"], a["s"])

    def rhs(self, a, ts):
        w = ts[0].unfold(2, a["k"], a["s"])
        return w.max(-1) if a["kind"] == "max" else w.mean(-1)


@ident("mean = sum / count")
class _Mean(Identity):
    def configs(self, tier):
        out = []
        for s in [(3,), (2, 3)] + ([] if tier == "quick" else [(2, 1, 3)]):
            dims = [None] + list(range(-len(s), len(s))) + ([[0, 1], [-1, 0]] if len(s) >= 2 else [])
            for d in dims:
                for keep in (False, True):
                    out.append({"shape": list(s), "dim": d, "keep": keep})
        return out

    def inputs(self, a):
        return [Inp("x", a["shape"])]

    def _dim(self, a):
        return tuple(a["dim"]) if isinstance(a["dim"], list) else a["dim"]

    def lhs(self, a, ts):
        return ts[0].mean(self._dim(a), a["keep"])

    def rhs(self, a, ts):
        d = self._dim(a)
        shape = a["shape"]
        if d is None:
            cnt = int(np.prod(shape, dtype=int))
        else:
            cnt = int(np.prod([shape[i] for i in (d if isinstance(d, tuple) else (d,))], dtype=int))
        # the count is handed over as a tensor so that 1/count is formed inside the library (a Python-level
        # 1/3.0 would be rounded to a double before the model sees it)
        return ts[0].sum(d, a["keep"]) / T()(self.env.const(float(cnt), np.float32))


@ident("stack = concat(unsqueeze)")
class _Stack(Identity):
    def configs(self, tier):
        out = []
        for s, n in [((3,), 2), ((2, 2), 3)]:
            for d in range(-len(s) - 1, len(s) + 1):
                out.append({"shape": list(s), "n": n, "dim": d})
        return out

    def inputs(self, a):
        return [Inp("x%d" % i, a["shape"]) for i in range(a["n"])]

    def lhs(self, a, ts):
        return SG().stack(list(ts), a["dim"])

    def rhs(self, a, ts):
        return SG().concat([t.unsqueeze(a["dim"]) for t in ts], a["dim"])


@ident("unbind inverts stack")
class _Unbind(_Stack):
    def lhs(self, a, ts):
        return list(SG().unbind(SG().stack(list(ts), a["dim"]), a["dim"]))

    def rhs(self, a, ts):
        return [t.clone() for t in ts]


@ident("flatten = reshape")
class _Flat(Identity):
    def configs(self, tier):
        out = []
        for s in [(2, 3), (2, 3, 2)]:
            r = len(s)
            for st in range(-r, r):
                for en in range(-r, r):
                    if st % r <= en % r:
                        out.append({"shape": list(s), "start": st, "end": en})
        return out

    def inputs(self, a):
        return [Inp("x", a["shape"])]

    def lhs(self, a, ts):
        return ts[0].flatten(a["start"], a["end"])

    def rhs(self, a, ts):
        s = a["shape"]
        r = len(s)
        st, en = a["start"] % r, a["end"] % r
        new = tuple(s[:st]) + (int(np.prod(s[st:en + 1], dtype=int)),) + tuple(s[en + 1:])
        return ts[0].reshape(new)


@ident("movedim(adjacent) = transpose")
class _Move(Identity):
    def configs(self, tier):
        out = []
        for s in [(2, 3), (2, 3, 4)]:
            r = len(s)
            for i in range(r - 1):
                for sa, sb in itertools.product((0, 1), repeat=2):
                    out.append({"shape": list(s), "i": i - r * sa, "j": i + 1 - r * sb})
                    out.append({"shape": list(s), "i": i + 1 - r * sb, "j": i - r * sa})
        return out

    def inputs(self, a):
        return [Inp("x", a["shape"])]

    def lhs(self, a, ts):
        return ts[0].movedim(a["i"], a["j"])

    def rhs(self, a, ts):
        return ts[0].transpose(a["i"], a["j"])


@ident("Neuron = Linear(out=1)")
class _Neuron(Identity):
    def configs(self, tier):
        return [{"n": 2, "in": 3, "bias": True}, {"n": 1, "in": 2, "bias": False}]

    def inputs(self, a):
        ins = [Inp("x", (a["n"], a["in"])), Inp("w", (1, a["in"]), param=True)]
        if a["bias"]:
            ins.append(Inp("b", (1,), param=True))
        return ins

    def _mod(self, cls, a, ts, *ca):
        m = cls(*ca, bias=a["bias"])
        m.weight = ts[1]
        if a["bias"]:
            m.bias = ts[2]
        return m(ts[0])

    def lhs(self, a, ts):
        return self._mod(NN().Neuron, a, ts, a["in"])

    def rhs(self, a, ts):
        return self._mod(NN().Linear, a, ts, a["in"], 1)


@ident("Sequential = composition")
class _Seq(Identity):
    def configs(self, tier):
        # shared_act / repeated: one module *instance* at two positions of the chain is applied twice, like any function
        # reassigned_*: a layer replaced by attribute assignment after construction keeps its position in the chain (round k)
        return [{"form": "positional"}, {"form": "ordered_dict"}, {"form": "shared_act"}, {"form": "repeated"},
                {"form": "reassigned_act"}, {"form": "reassigned_first"}]

    def inputs(self, a):
        if a["form"] == "repeated":
            return [Inp("x", (2, 2)), Inp("w1", (2, 2), param=True), Inp("b1", (2,), param=True)]
        return [Inp("x", (2, 2)), Inp("w1", (3, 2), param=True), Inp("b1", (3,), param=True), Inp("w2", (1, 3), param=True)]

    def _mods(self, ts):
        nn = NN()
        l1 = nn.Linear(2, 3)
        l1.weight, l1.bias = ts[1], ts[2]
        l2 = nn.Linear(3, 1, bias=False)
        l2.weight = ts[3]
        return l1, nn.Tanh(), l2

    def _square(self, ts):
        l = NN().Linear(2, 2)
        l.weight, l.bias = ts[1], ts[2]
        return l

    def lhs(self, a, ts):
        from collections import OrderedDict
        if a["form"] == "repeated":
            l = self._square(ts)
            return NN().Sequential(l, l)(ts[0])
        l1, act, l2 = self._mods(ts)
        if a["form"] == "ordered_dict":
            seq = NN().Sequential(OrderedDict([("first", l1), ("act", act), ("last", l2)]))
        elif a["form"] == "shared_act":
            seq = NN().Sequential(l1, act, l2, act)
        elif a["form"] == "reassigned_act":
            seq = NN().Sequential(OrderedDict([("first", l1), ("act", NN().Sigmoid()), ("last", l2)]))
            seq.act = act
        elif a["form"] == "reassigned_first":
            seq = NN().Sequential(OrderedDict([("first", self._mods(ts)[0]), ("act", act), ("last", l2)]))
            seq.first = l1
        else:
            seq = NN().Sequential(l1, act, l2)
        return seq(ts[0])

    def rhs(self, a, ts):
        if a["form"] == "repeated":
            l = self._square(ts)
            return l(l(ts[0]))
        l1, act, l2 = self._mods(ts)
        if a["form"] == "shared_act":
            return act(l2(act(l1(ts[0]))))
        return l2(act(l1(ts[0])))


class Case:
    prop = PROP

    def __init__(self, spec):
        self.idn = IDENT[spec["identity"]]
        self.args = spec["args"]
        self.twice = bool(spec.get("twice"))
        self.sig = sig_of(spec["identity"], self.args, {"twice": True} if self.twice else None)

    def run(self, env):
        with EpsZero(self.idn.eps_zero):
            return self._run(env)

    def _side(self, env, specs, arrays, which):
        Tn = T()
        ts = []
        for sp, a in zip(specs, arrays):
            t = Tn(a, requires_grad=sp.differentiable)
            if sp.param:
                t = NN().Parameter(t)
            ts.append(t)
        o = (self.idn.lhs if which == "l" else self.idn.rhs)(self.args, ts)
        outs = list(o) if isinstance(o, (list, tuple)) else [o]
        return ts, outs

    def _run(self, env):
        out = E.Outcome()
        specs = self.idn.inputs(self.args)
        self.idn.env = env
        arrays = [env.arr(sp.label, sp.shape, np.float32, **sp.dom) for sp in specs]
        try:
            tl, ol = self._side(env, specs, arrays, "l")
        except Exception as e:  # noqa: BLE001
            from ..symnum.engine import exception_origin
            mr = getattr(self.idn, "may_reject", None)
            if mr is not None and mr(self.args) and not isinstance(e, sc.Unsupported) and exception_origin(e) == "repo":
                out.rejected = "%s: %s" % (type(e).__name__, e)    # outside the common domain of the two sides
                return out
            raise
        tr, orr = self._side(env, specs, arrays, "r")
        out.fact("same number of outputs", len(ol) == len(orr))
        Tn = T()
        for k, (a, b) in enumerate(zip(ol, orr)):
            if tuple(a.shape) != tuple(b.shape):
                out.fact("out%d:shape" % k, False, "fused %s vs composed %s" % (tuple(a.shape), tuple(b.shape)))
                return out
            if self.idn.log_valued:
                if self.args.get("t") == "symbolic":
                    # affine in t: second derivative w.r.t. every target element must vanish on both sides
                    if env.sym:
                        tn = [s.n for s in arrays[1].view(np.ndarray).reshape(-1)]
                        for side, o in (("fused", a), ("composed", b)):
                            for e in o.data.view(np.ndarray).reshape(-1):
                                d1 = diff.grad(sc.lift(e), tn)
                                for d in d1:
                                    d2 = diff.grad(d, tn)
                                    out.pair("sym:d2(%s)/dt2" % side, [sc.S(x) for x in d2], [0.0] * len(d2))
                else:
                    out.pair("exp(out%d)" % k, _exp_all(a.data), _exp_all(b.data))
            else:
                out.pair("out%d" % k, a.data, b.data)
            g = env.arr("g%d" % k, a.shape, np.float32, lo=-2, hi=2)
            if a.requires_grad:
                a.backward(Tn(g))
            if b.requires_grad:
                b.backward(Tn(g))
            if self.twice:      # both sides differentiated a second time: the accumulated gradients must still coincide
                h = env.arr("h%d" % k, a.shape, np.float32, lo=-2, hi=2)
                if a.requires_grad:
                    a.backward(Tn(h))
                if b.requires_grad:
                    b.backward(Tn(h))
        for sp, x, y in zip(specs, tl, tr):
            if not sp.differentiable:
                continue
            if gradof(x) is None or gradof(y) is None:
                out.fact("grad(%s) present on both sides" % sp.label, gradof(x) is None and gradof(y) is None,
                         "fused: %s, composed: %s" % (gradof(x) is not None, gradof(y) is not None))
                continue
            out.pair("grad(%s)" % sp.label, gradof(x), gradof(y))
        return out


def enumerate_specs(tier):
    specs = []
    for name, idn in IDENT.items():
        for ci, args in enumerate(idn.configs(tier)):
            specs.append({"identity": name, "args": args})
            if tier != "quick" or ci % 2 == 0:
                specs.append({"identity": name, "args": args, "twice": True})
    return specs


def build(spec):
    return Case(spec)


def main(tier, seed):
    t0 = time.time()
    specs = enumerate_specs(tier)
    results = runner.run_pool(__name__, specs, tier, seed)
    return runner.finish(
        PROP, tier, seed, results, t0,
        bounds={"identities": sorted(IDENT), "grid": "see configs() of each identity in vf/checks/c14.py"},
        assumptions=["floats are reals", "cpu_ops.epsilon := 0 for the log-type identities (with the real constant the two "
                     "sides differ by the guard, which is C09's subject)",
                     "log-valued pairs are compared after exponentiation; bce_with_logits vs bce(sigmoid) is affine in the "
                     "target: values compared at targets 0/1 plus d2/dt2 = 0, gradients with symbolic targets",
                     "max-pool identity on zero padding only (padding value differs between the two sides by design)"],
        stubs=["cpu_ops.epsilon := 0 where listed", "numpy creators inside synapgrad return constant symbolic arrays"],
        rule="one configuration = identity x shapes/geometry; both programs run on the same symbolic operands and the same "
             "symbolic upstream gradient; values and every operand gradient must be solver-equal")
