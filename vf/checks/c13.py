"""C13 - Dropout and BatchNorm honour train/eval mode over any call history."""
from __future__ import annotations

import itertools
import time

import numpy as np

from ..harness import T, sig_of, snapshot, objarr, gradof, set_grad
from ..opcat_tensor import ssum
from ..symnum import engine as E
from ..symnum import array as ar
from ..symnum.scalar import S
from .. import runner

PROP = "C13"


def ssqrt(x):
    return x.sqrt() if isinstance(x, S) else np.sqrt(x)


def draw(env, k, shape):
    """the k-th (1-based) uniform draw the layer made: same variables as the RNG stub handed out"""
    name = "rng%d_u" % k
    if env.sym:
        return ar.sym_array(name, shape, np.float64, lo=0, hi=1, hi_strict=True, kind="rng")
    return env.feed(name, shape)


def histories(maxlen, alphabet="tef"):
    out = []
    for n in range(1, maxlen + 1):
        for h in itertools.product(alphabet, repeat=n):
            h = "".join(h)
            if h[-1] != "f" or "tt" in h or "ee" in h or "te" in h.replace("f", "") and False:
                continue
            out.append(h)
    return out


class DropoutCase:
    prop = PROP

    def __init__(self, spec):
        self.spec = spec
        self.sig = sig_of("Dropout", spec, None)
        if spec.get("dtype") == "float64":
            self.tol = 1e-12     # "scaled by exactly 1/(1-p)" at the precision of the input

    def run(self, env):
        from synapgrad import nn
        Tn = T()
        sp = self.spec
        p = sp["p"]
        shape = tuple(sp["shape"])
        m = nn.Dropout(p)
        # nested: the layer sits in a container (two levels); T / E switch the container, t / e the layer itself
        box = nn.Sequential(nn.Sequential(m)) if sp.get("nested") else m
        out = E.Outcome()
        training = True
        ndraw = 0
        nf = 0
        defer = bool(sp.get("defer"))       # all backward calls after the last forward (a layer shared by several branches)
        recs = []
        for i, act in enumerate(sp["history"]):
            if act in "tT":
                (box if act == "T" else m).train()
                training = True
            elif act in "eE":
                (box if act == "E" else m).eval()
                training = False
            else:
                x = Tn(env.arr("x%d" % nf, shape, np.dtype(sp.get("dtype", "float32"))), requires_grad=True)
                y = box(x)
                tag = "forward %d (%s%s)" % (nf, "train" if training else "eval", ", backward deferred" if defer else "")
                g = env.arr("g%d" % nf, shape, lo=-2, hi=2)
                if not defer:
                    y.backward(Tn(g))
                if training:
                    ndraw += 1
                recs.append((x, y, g, tag, training, ndraw))
                out.fact("module.training follows the switches: " + tag, m.training == training)
                nf += 1
        if defer:
            for x, y, g, tag, tr, k in recs:
                y.backward(Tn(g))
        for x, y, g, tag, tr, k in recs:
            if not tr:
                out.pair("eval is the identity: " + tag, y.data, x.data)
                out.pair("eval backward is the identity: " + tag, gradof(x), g)
            else:
                u = draw(env, k, shape)
                exp = objarr(shape)
                gexp = objarr(shape)
                for idx in np.ndindex(*shape):
                    keep = (u[idx] > p)
                    scale = (1.0 / (1.0 - p)) if p < 1 else 1.0
                    exp[idx] = x.data[idx] * scale if keep else x.data[idx] * 0
                    gexp[idx] = g[idx] * scale if keep else g[idx] * 0
                out.pair("x_i*[u_i>p]/(1-p): " + tag, y.data, exp if env.sym else np.array(exp, dtype=np.float64))
                out.pair("backward through the same mask: " + tag, gradof(x), gexp if env.sym else np.array(gexp, dtype=np.float64))
        return out


class DropoutIllegalCase:
    """p outside [0, 1] is not a probability: 'zeroes each element with probability p' cannot be honoured, so the layer must
    refuse it (PyTorch: 'dropout probability has to be between 0 and 1') instead of silently doing something else"""
    prop = PROP

    def __init__(self, spec):
        self.spec = spec
        self.sig = sig_of("Dropout-illegal", spec, None)

    def run(self, env):
        from synapgrad import nn
        out = E.Outcome()
        p = self.spec["p"]
        try:
            m = nn.Dropout(p)
            y = m(T()(env.arr("x", (2,)), requires_grad=True))
            out.fact("a drop probability outside [0, 1] is rejected", False,
                     "Dropout(%r) was constructed and returned a tensor of shape %s" % (p, tuple(y.shape)))
        except (ValueError, TypeError, RuntimeError, AssertionError):
            out.fact("a drop probability outside [0, 1] is rejected", True)
        return out


class BNCase:
    prop = PROP

    def __init__(self, spec):
        self.spec = spec
        self.sig = sig_of("BatchNorm", spec, None)

    def run(self, env):
        from synapgrad import nn
        Tn = T()
        sp = self.spec
        shape = tuple(sp["shape"])
        C = shape[1]
        cls = nn.BatchNorm2d if len(shape) == 4 else nn.BatchNorm1d
        out = E.Outcome()
        if sp.get("default"):
            # the module exactly as its constructor leaves it: eps = 1e-5, momentum = 0.1, gamma = 1, beta = 0, running
            # statistics 0 / 1, no batch seen yet
            m = cls(C)
            eps, mom = 1e-5, 0.1
            sp = dict(sp, affine=True, track=True, momentum=0.1)
            gam, bet = [1.0] * C, [0.0] * C
            rm, rv = [0.0] * C, [1.0] * C
            out.fact("a fresh module is in training mode with no batch tracked", m.training and m.num_batches_tracked == 0)
            for nm_, arr_, want_ in (("weight", m.weight.data, np.ones(C)), ("bias", m.bias.data, np.zeros(C)),
                                     ("running_mean", m.running_mean.data, np.zeros(C)), ("running_var", m.running_var.data, np.ones(C))):
                out.pair("initial %s" % nm_, snapshot(arr_), want_)
        else:
            eps = env.scalar("eps", lo=0, hi=0.5, lo_strict=True, kind="data")
            if sp["momentum"] is None or isinstance(sp["momentum"], float):
                mom = sp["momentum"]          # None (cumulative average) or an exact end point: 0.0 freezes, 1.0 replaces
            else:
                mom = env.scalar("mom", lo=0, hi=1, lo_strict=True, hi_strict=True, kind="data")
            if sp.get("dtype"):
                # the constructor's dtype option: parameters and running statistics are created in that type
                m = cls(C, eps=eps, momentum=mom, affine=sp["affine"], track_running_stats=sp["track"], dtype=np.dtype(sp["dtype"]).type)
                made = [("running_mean", m.running_mean), ("running_var", m.running_var)] if sp["track"] else []
                made += [("weight", m.weight), ("bias", m.bias)] if sp["affine"] else []
                for nm_, t_ in made:
                    out.fact("BatchNorm(dtype=%s) creates %s in that dtype" % (sp["dtype"], nm_), str(t_.dtype) == sp["dtype"], "dtype %s" % t_.dtype)
            else:
                m = cls(C, eps=eps, momentum=mom, affine=sp["affine"], track_running_stats=sp["track"])
            gam = bet = None
            if sp["affine"]:
                gam = env.arr("gamma", (C,))
                bet = env.arr("beta", (C,))
                m.weight = nn.Parameter(Tn(gam, requires_grad=True))
                m.bias = nn.Parameter(Tn(bet, requires_grad=True))
            rm = rv = None
            if sp["track"]:
                rm0 = env.arr("rm", (C,))
                rv0 = env.arr("rv", (C,), lo=0.1, hi=3)
                m.running_mean = Tn(rm0)
                m.running_var = Tn(rv0)
                rm = [rm0[c] for c in range(C)]
                rv = [rv0[c] for c in range(C)]
        nbt = 0
        training = True
        nf = 0
        recs = []
        for act in sp["history"]:
            if act == "t":
                m.train()
                training = True
                continue
            if act == "e":
                m.eval()
                training = False
                continue
            if sp.get("shapes"):          # the batch size changes from one forward to the next
                shape = tuple(sp["shapes"][nf % len(sp["shapes"])])
            x = env.arr("x%d" % nf, shape)
            xt = Tn(x, requires_grad=not sp.get("constant_input"))      # round k: raw data as input - nothing on the path requires grad
            before = (snapshot(m.running_mean.data), snapshot(m.running_var.data)) if sp["track"] else None
            y = m(xt)
            if sp.get("grads"):
                recs.append((nf, shape, xt, y, env.arr("g%d" % nf, shape, lo=-2, hi=2)))
                if sp["grads"] == "now":
                    y.backward(Tn(recs[-1][4]))
            tag = "forward %d (%s)" % (nf, "train" if training else "eval")
            use_batch = training or not sp["track"]
            exp = objarr(shape)
            n = int(np.prod(shape, dtype=int)) // C
            if training and sp["track"]:
                nbt += 1
                f = mom if mom is not None else 1.0 / float(nbt)
            for c in range(C):
                elems = [idx for idx in np.ndindex(*shape) if idx[1] == c]
                if use_batch:
                    mu = ssum(x[i] for i in elems) / n
                    var = ssum((x[i] - mu) * (x[i] - mu) for i in elems) / n
                else:
                    mu, var = rm[c], rv[c]
                sd = ssqrt(var + eps)
                for i in elems:
                    v = (x[i] - mu) / sd
                    if sp["affine"]:
                        v = v * gam[c] + bet[c]
                    exp[i] = v
                if training and sp["track"]:
                    unb = var * (n / (n - 1))
                    rm[c] = rm[c] * (1 - f) + mu * f
                    rv[c] = rv[c] * (1 - f) + unb * f
            out.pair("output: " + tag, y.data, exp if env.sym else np.array(exp, dtype=np.float64))
            if sp["track"]:
                mk = (lambda v: np.array(v, dtype=object if env.sym else np.float64))
                out.pair("running_mean after " + tag, snapshot(m.running_mean.data), mk(rm))
                out.pair("running_var after " + tag, snapshot(m.running_var.data), mk(rv))
                out.fact("num_batches_tracked after " + tag, m.num_batches_tracked == nbt,
                         "module %s, documented rule %s" % (m.num_batches_tracked, nbt))
                if not training:
                    out.pair("eval leaves running_mean alone: " + tag, snapshot(m.running_mean.data), before[0])
                    out.pair("eval leaves running_var alone: " + tag, snapshot(m.running_var.data), before[1])
            else:
                out.fact("no running statistics without tracking: " + tag, m.running_mean is None and m.running_var is None)
            nf += 1
        if recs:
            # one layer applied several times (in whatever modes the history switched to), every application differentiated:
            # each input gets the VJP of *its* application - as computed at the time of that forward, whatever later forwards
            # did to the running statistics - and the shared scale/shift accumulate over all of them
            if sp["grads"] == "deferred":
                for k, shp, xt, y, g in recs:
                    y.backward(Tn(g))
            from ..harness import elem_names
            names = {}
            inputs = []
            for k, shp, xt, y, g in recs:
                names["x%d" % k] = elem_names("x%d" % k, shp)
                inputs.append(("x%d" % k, xt.data, gradof(xt), True))
            if sp["affine"] and not sp.get("default"):
                names["gamma"], names["beta"] = elem_names("gamma", (C,)), elem_names("beta", (C,))
                inputs.append(("gamma", m.weight.data, gradof(m.weight), True))
                inputs.append(("beta", m.bias.data, gradof(m.bias), True))
            out.vjp = dict(outs=[y.data for _, _, _, y, _ in recs], gs=[g for _, _, _, _, g in recs], inputs=inputs)
            out.notes["names"] = names
        return out


def enumerate_specs(tier):
    specs = []
    hl = 3 if tier == "quick" else 5
    for p in (0.0, 0.5, 0.75, 1.0):     # 1/(1-p) exactly representable: the scale is formed in float arithmetic
        for h in histories(min(hl, 4)):
            if h.count("f") > 2:
                continue
            specs.append({"kind": "dropout", "p": p, "shape": [2], "history": h})
    for p in (0.5, 0.75):
        for h in ("ff", "fef", "ftf", "eff") + (("fff", "ffef") if tier != "quick" else ()):
            specs.append({"kind": "dropout", "p": p, "shape": [2], "history": h, "defer": True})
    # a Dropout two containers deep, switched through the container (T/E) and directly (t/e) in every order
    for n in (2, 3) if tier == "quick" else (2, 3, 4):
        for h in itertools.product("tTeE", repeat=n):
            h = "".join(h)
            if not (any(c in h for c in "TE") and any(c in h for c in "te")):
                continue
            if tier == "quick" and n == 3 and h[0] in "tT":
                continue        # modules start in training mode: a leading train() adds nothing at this length
            specs.append({"kind": "dropout", "p": 0.5, "shape": [2], "history": h + "f", "nested": True})
    for p in (-0.5, 1.5, 2.0):
        specs.append({"kind": "dropout_illegal", "p": p})
    specs.append({"kind": "dropout", "p": 0.5, "shape": [2, 2], "history": "f"})
    specs.append({"kind": "dropout", "p": 0.3, "shape": [1, 2, 1], "history": "ef"})
    specs.append({"kind": "dropout", "p": 0.875, "shape": [3], "history": "f"})
    # double-precision inputs and a p whose 1/(1-p) is not exactly representable: the scale must not pass through float32
    specs.append({"kind": "dropout", "p": 0.1, "shape": [2], "history": "f", "dtype": "float64"})
    specs.append({"kind": "dropout", "p": 0.3, "shape": [2], "history": "fef", "dtype": "float64"})
    shapes = [(2, 1), (2, 1, 2)] if tier == "quick" else [(2, 1), (2, 2), (3, 1), (2, 1, 2), (2, 1, 1, 2)]
    idx = 0
    for shape in shapes:
        for affine in (True, False):
            for track in (True, False):
                for momentum in ("s", None, 0.0, 1.0):
                    if not track and momentum != "s":
                        continue
                    for h in histories(hl):
                        idx += 1
                        if h.count("f") > (2 if tier == "quick" else 3):
                            continue
                        if tier == "quick" and len(h) == 3 and idx % 2:
                            continue
                        if tier != "quick" and len(h) == 4 and idx % 2:
                            continue
                        if tier != "quick" and len(h) == 5 and idx % 6:
                            continue
                        specs.append({"kind": "bn", "shape": list(shape), "affine": affine, "track": track,
                                      "momentum": momentum, "history": h})
    specs.append({"kind": "bn", "shape": [2, 1, 1, 2], "affine": True, "track": True, "momentum": "s", "history": "fef"})
    specs.append({"kind": "bn", "shape": [2, 1, 1, 2], "affine": True, "track": False, "momentum": "s", "history": "fef"})    # BatchNorm2d without statistics
    specs.append({"kind": "bn", "shape": [2, 1, 2, 1], "affine": False, "track": True, "momentum": None, "history": "ff"})
    for shape in ([2, 1], [2, 1, 1, 2]):
        specs.append({"kind": "bn", "shape": shape, "affine": True, "track": True, "momentum": "s", "history": "f", "dtype": "float64"})
    # every application of the one layer is differentiated, right away or only after the last forward
    # (histories in which no eval forward follows a training forward: the running statistics an eval forward reads are then
    # inputs of the scenario, not functions of an earlier batch - autograd rightly treats them as constants, a value-level
    # oracle would not)
    for h in ("ff", "eftf", "efetf", "eeftff") if tier != "quick" else ("eftf", "ff"):
        for how in ("deferred", "now"):
            for affine in (True, False):
                specs.append({"kind": "bn", "shape": [2, 1], "affine": affine, "track": True, "momentum": "s", "history": h, "grads": how})
    specs.append({"kind": "bn", "shape": [2, 1, 2], "affine": True, "track": False, "momentum": "s", "history": "fef", "grads": "deferred"})
    # one sample with a spatial extent: the per-channel count is L resp. H*W (> 1), the running variance still unbiased
    for shape, mom in (([1, 1, 2], "s"), ([1, 2, 3], None), ([1, 1, 1, 2], "s"), ([1, 1, 2, 2], 1.0)):
        specs.append({"kind": "bn", "shape": shape, "affine": False, "track": True, "momentum": mom, "history": "ff" if mom is None else "fef"})
    for shape in ([2, 2], [2, 1, 2], [2, 1, 1, 2]):
        specs.append({"kind": "bn", "shape": shape, "default": True, "affine": True, "track": True, "momentum": 0.1, "history": "fef"})
    specs.append({"kind": "bn", "shape": [2, 1], "shapes": [[2, 1], [3, 1]], "affine": True, "track": True, "momentum": "s", "history": "ffef"})
    specs.append({"kind": "bn", "shape": [3, 1], "shapes": [[3, 1], [2, 1]], "affine": False, "track": True, "momentum": None, "history": "ff"})
    # round k: the layer applied to raw data (input without requires_grad); with affine=False nothing the output depends on requires
    # grad - the running statistics move all the same, once per training forward
    for shape, affine, mom in (([2, 1], False, "s"), ([2, 2], False, None), ([2, 1, 2], False, "s"), ([2, 1], True, "s"), ([2, 1, 1, 2], False, 1.0)):
        specs.append({"kind": "bn", "shape": shape, "affine": affine, "track": True, "momentum": mom,
                      "history": "ff" if mom is None else "fef", "constant_input": True})
    return specs


def build(spec):
    spec = dict(spec)
    kind = spec.pop("kind")
    if kind == "dropout_illegal":
        return DropoutIllegalCase(spec)
    return DropoutCase(spec) if kind == "dropout" else BNCase(spec)


def main(tier, seed):
    t0 = time.time()
    specs = enumerate_specs(tier)
    results = runner.run_pool(__name__, specs, tier, seed)
    return runner.finish(
        PROP, tier, seed, results, t0,
        bounds={"history": "<= 3 (quick) / 4 (thorough) actions over {train(), eval(), forward} with <= 2/3 forwards; backward right after "
                           "each forward, or (dropout) all backward calls deferred until after the last forward; "
                           "Dropout two containers deep with <= 3 (4) switches through the container and directly, in every order",
                "dropout": "p in {0, 0.5, 0.75, 0.875, 1} (1/(1-p) exactly representable), 2-4 elements", "batch norm": "N<=3, C<=2, ranks 2-4"},
        assumptions=["floats are reals", "uniform draws are fresh symbolic values in [0,1) (generator contract); 'zeroed with "
                     "probability p' is read as 'zeroed exactly when the draw is <= p'",
                     "running variance > 0, eps > 0, momentum symbolic in (0,1), exactly 0.0, exactly 1.0, or None"],
        stubs=["np.random.rand inside synapgrad -> fresh symbolic draws", "numpy creators return constant symbolic arrays"],
        rule="one configuration = layer options x input shape x history; inputs, affine parameters, initial running "
             "statistics, momentum, eps, draws and upstream gradients are symbolic")
