"""C06 - forward results match the definitional reference; illegal argument combinations are rejected."""
from __future__ import annotations

import time

from .. import opcat_nn as cat
from ..harness import OpCase
from .. import runner

PROP = "C06"


def enumerate_specs(tier):
    specs = []
    for name, od in cat.REG.items():
        for ci, args in enumerate(od.configs(tier)):
            specs.append({"op": name, "args": args, "variant": {}})
            # the same configuration with the first operand arriving as a non-contiguous view
            if ci % 3 == 0 and len(od.inputs(args)[0].shape) >= 2:
                specs.append({"op": name, "args": args, "variant": {"layout": "T" if ci % 2 == 0 else "S"}})
        for args in od.illegal_configs(tier):
            specs.append({"op": name, "args": args, "variant": {"illegal": True}})
    return specs


def build(spec):
    return OpCase(PROP, cat.REG[spec["op"]], spec["args"], spec.get("variant"))


def main(tier, seed):
    t0 = time.time()
    specs = enumerate_specs(tier)
    results = runner.run_pool(__name__, specs, tier, seed, chain=4)
    # E3: the output-size arithmetic shared by every window-based op, for symbolic sizes up to 10^6
    from .. import lemmas
    extra_lines, extra_viol = [], 0
    try:
        lem, _meta = lemmas.conv_size_lemma(tier)
    except Exception as e:  # noqa: BLE001
        lem = {"lemma": "conv output size", "error": repr(e), "queries": 0, "both_unsat": 0, "sat_indices": []}
    if lem.get("sat_indices") or lem.get("translator_mismatches"):
        extra_viol = 1
        path = runner.write_replay(PROP, {"sig": "lemma:conv output size", "module": None, "spec": lem},
                                   {"label": "lemma", "kind": "smt", "detail": str(lem)})
        extra_lines += ["VIOLATION property=%s replay=%s" % (PROP, path),
                        "  E3 lemma 'conv output size = floor((L+2p-d(k-1)-1)/s)+1' has a satisfiable negation: %s" % (lem,)]
    extra_lines.append("E3 lemma conv output size: %s/%s queries unsat in both solvers (z3 %ss, cvc5 %ss)" % (
        lem.get("both_unsat"), lem.get("queries"), lem.get("z3_s"), lem.get("cvc5_s")))
    rc = None
    if tier != "quick":
        # oracle validation: every reference definition against the PyTorch operation it claims to define
        from .. import refcheck
        rc = refcheck.check_catalogue(cat.REG, tier, seed)
        extra_lines.append("reference definitions cross-checked against torch: %d configurations, %d mismatches, not mapped: %s" % (
            rc["checked"], rc["n_mismatches"], rc["unmapped_ops"]))
        if rc["n_mismatches"]:
            print("HARNESS-ERROR: a reference definition disagrees with torch: %s" % (rc["mismatches"][:3],))
            return 2
    return runner.finish(
        PROP, tier, seed, results, t0,
        bounds={"ops": sorted(cat.REG), "grid": "see vf/opcat_nn.py configs()/illegal_configs() for the tier"},
        assumptions=["floats are modelled as reals (no rounding)",
                     "ties/kinks are outside the claim",
                     "references are index-level definitions written on scalars (vf/opcat_nn.py), cross-checked against torch in the thorough tier",
                     "cpu_ops.epsilon := 0 for log-type ops (guard effects belong to C09)"],
        stubs=["numpy creators inside synapgrad return constant symbolic arrays", "cpu_ops.epsilon := 0 where listed"],
        extra_cov={"smt_lemma": lem, "references_vs_torch": rc}, extra_lines=extra_lines, extra_violations=extra_viol,
        rule="one configuration = op x shapes x arguments (legal: must be accepted and equal the reference for all "
             "operand values; illegal: must raise)")
