"""C07 - requires_grad propagation and grad-mode contexts behave like a stack (E2: CrossHair).

H1: histories over {construct / enter / fused-with / exit / exit-by-exception / probe} of no_grad and retain_grads,
    against a stack-of-modes model (the mode restored is the one in force when the context was *entered*).
H2: histories over {enter/exit contexts, create leaves of either flag and dtype, unary/binary ops, set requires_grad,
    retain_grad(), backward()} against a model of flag propagation and gradient retention."""
from __future__ import annotations

import os
import time

from .. import e2
from .. import runner, common

PROP = "C07"

H1 = '''
import numpy as np
from typing import List, Tuple
import synapgrad
TM = sys.modules["synapgrad.tensor"]
FIRST = %(first)r
MAXLEN = %(maxlen)d


def _probe(model_top):
    x = synapgrad.Tensor(np.ones((2,), dtype=np.float32), requires_grad=True)
    z = x * 2.0
    ok = (x.requires_grad == model_top[0]) and (z.requires_grad == model_top[0]) and ((z.grad_fn is not None) == model_top[0])
    return ok and _mode_is(model_top)


def %(name)s(rest: List[Tuple[int, int]]) -> bool:
    """
    pre: len(rest) <= MAXLEN
    pre: all(0 <= a[0] <= 8 and 0 <= a[1] <= 1 for a in rest)
    post: __return__ == True
    """
    _PATHS[0] += 1
    _reset_modes()
    model = [(True, False)]      # stack of modes; top = mode in force
    built = []                   # constructed, not yet entered: (kind, object)
    entered = []                 # entered contexts, innermost last
    ok = True
    for op, a in (FIRST if isinstance(FIRST, list) else [FIRST]) + list(rest):
        if op == 0:
            built.append((0, synapgrad.no_grad()))
        elif op == 1:
            built.append((1, synapgrad.retain_grads()))
        elif op == 2:            # enter a context constructed earlier (possibly under another mode)
            if built:
                kind, c = built.pop(a %% len(built))
                c.__enter__()
                _LEFT.append(c)
                entered.append((kind, c))
                top = model[-1]
                model.append((False, top[1]) if kind == 0 else (top[0], True))
        elif op == 3:            # with no_grad():
            c = synapgrad.no_grad()
            c.__enter__()
            _LEFT.append(c)
            entered.append((0, c))
            model.append((False, model[-1][1]))
        elif op == 4:            # with retain_grads():
            c = synapgrad.retain_grads()
            c.__enter__()
            _LEFT.append(c)
            entered.append((1, c))
            model.append((model[-1][0], True))
        elif op == 5:            # leave the innermost context normally
            if entered:
                entered.pop()[1].__exit__(None, None, None)
                _LEFT.pop()
                model.pop()
        elif op == 6:            # leave the innermost context by exception
            if entered:
                r = entered.pop()[1].__exit__(ValueError, ValueError("x"), None)
                _LEFT.pop()
                model.pop()
                ok = ok and not r            # the exception must not be swallowed
        elif op == 8:            # enter a context object that is already entered (the same object nested in itself)
            if entered:
                kind, c = entered[a %% len(entered)]
                c.__enter__()
                _LEFT.append(c)
                entered.append((kind, c))
                top = model[-1]
                model.append((False, top[1]) if kind == 0 else (top[0], True))
        else:
            ok = ok and _probe(model[-1])
        ok = ok and _mode_is(model[-1])
    ok = ok and _probe(model[-1])
    while entered:
        entered.pop()[1].__exit__(None, None, None)
    del _LEFT[:]
    _reset_modes()
    return ok


def %(name)s_twin(rest: List[Tuple[int, int]]) -> bool:
    """
    pre: len(rest) <= MAXLEN
    pre: all(0 <= a[0] <= 8 and 0 <= a[1] <= 1 for a in rest)
    post: False
    """
    return True
'''

H2 = '''
import numpy as np
from typing import List, Tuple
import synapgrad
TM = sys.modules["synapgrad.tensor"]
FIRST = %(first)r
MAXLEN = %(maxlen)d


class R:
    """model record of one tensor"""
    def __init__(self, t, req, has_fn, floating, parents, born_retain):
        self.t = t; self.req = req; self.has_fn = has_fn; self.floating = floating
        self.parents = parents; self.retain = False; self.born_retain = born_retain; self.has_grad = False

    def is_leaf(self):
        return (not self.req) or (not self.has_fn)


def _consistent(live):
    for r in live:
        t = r.t
        if t.requires_grad != r.req or (t.grad_fn is not None) != (r.req and r.has_fn) or t.is_leaf != r.is_leaf():
            return False
        if (_g(t) is not None) != r.has_grad and r.has_grad is not None:
            return False
    return True


def %(name)s(rest: List[Tuple[int, int]]) -> bool:
    """
    pre: len(rest) <= MAXLEN
    pre: all(0 <= a[0] <= 13 and 0 <= a[1] <= 3 for a in rest)
    post: __return__ == True
    """
    _PATHS[0] += 1
    _reset_modes()
    mode = [(True, False)]
    entered = []
    live = []
    ok = True
    for op, a in (FIRST if isinstance(FIRST, list) else [FIRST]) + list(rest):
        grad_on, retain_on = mode[-1]
        if op == 0:
            c = synapgrad.no_grad(); c.__enter__(); _LEFT.append(c); entered.append(c); mode.append((False, retain_on))
        elif op == 1:
            c = synapgrad.retain_grads(); c.__enter__(); _LEFT.append(c); entered.append(c); mode.append((grad_on, True))
        elif op == 2:
            if entered:
                entered.pop().__exit__(None, None, None); _LEFT.pop(); mode.pop()
        elif op == 3:            # float leaf, requested flag a%%2
            want = bool(a %% 2)
            t = synapgrad.Tensor(np.ones((2,), dtype=np.float32) * (len(live) + 2), requires_grad=want)
            live.append(R(t, want and grad_on, False, True, [], retain_on))
        elif op == 4:            # integer leaf, requested flag a%%2: only floating tensors can be made to require grad
            want = bool(a %% 2)
            try:
                if a < 2:        # integer data
                    t = synapgrad.Tensor(np.ones((2,), dtype=np.int32), requires_grad=want)
                else:            # float data cast by the dtype= argument: the tensor is what it is after the cast
                    t = synapgrad.Tensor(np.ones((2,), dtype=np.float32), dtype=np.int32, requires_grad=want)
                ok = ok and not (want and grad_on) and not t.requires_grad and t.dtype == np.int32
                live.append(R(t, False, False, False, [], retain_on))
            except RuntimeError:
                ok = ok and (want and grad_on)
        elif op == 13:           # a leaf that was *computed* (from tensors that do not require grad) and flagged afterwards
            base = synapgrad.Tensor(np.ones((2,), dtype=np.float32) * (len(live) + 2))
            t = base * 2.0
            t.requires_grad = True
            live.append(R(t, True, False, True, [], retain_on))
        elif op == 12:           # float leaf obtained from integer data through dtype=: may require grad
            want = bool(a %% 2)
            t = synapgrad.Tensor(np.ones((2,), dtype=np.int32) * (len(live) + 2), dtype=np.float32, requires_grad=want)
            live.append(R(t, want and grad_on, False, True, [], retain_on))
        elif op == 5:            # unary op
            if live:
                p = live[a %% len(live)]
                if p.floating:
                    t = p.t.exp()
                    req = grad_on and p.req
                    live.append(R(t, req, req, True, [p], retain_on))
        elif op == 6:            # binary op (same tensor twice allowed)
            if live:
                p = live[a %% len(live)]; q = live[(a // 2) %% len(live)]
                if p.floating and q.floating:
                    t = p.t * q.t
                    req = grad_on and (p.req or q.req)
                    live.append(R(t, req, req, True, [p, q], retain_on))
        elif op == 7:            # set requires_grad := a//2 on tensor a%%2
            if live:
                p = live[(a %% 2) %% len(live)]
                val = bool(a // 2)
                try:
                    p.t.requires_grad = val
                    ok = ok and p.is_leaf() and (p.floating or not val)
                    p.req = val
                except RuntimeError:
                    ok = ok and ((not p.is_leaf()) or (val and not p.floating))
        elif op == 8:            # retain_grad()
            if live:
                p = live[a %% len(live)]
                try:
                    p.t.retain_grad()
                    ok = ok and p.req
                    p.retain = True
                except RuntimeError:
                    ok = ok and not p.req
        elif op == 9:            # backward()
            if live:
                root = live[a %% len(live)]
                try:
                    root.t.backward(synapgrad.Tensor(np.ones((2,), dtype=np.float32)))
                    ok = ok and root.req
                    seen = []
                    st = [root]
                    while st:
                        r = st.pop()
                        if any(r is s for s in seen):
                            continue
                        seen.append(r)
                        if r.req and r.has_fn:      # gradients only flow through recorded operations
                            st.extend(r.parents)
                    for r in seen:
                        if not r.req:
                            continue                # never acquires a gradient (checked by _consistent)
                        if r is root or r.is_leaf():
                            r.has_grad = True
                        elif r.retain or r.born_retain:
                            r.has_grad = True       # marked with retain_grad(), or computed under retain_grads
                        else:
                            r.has_grad = False      # neither: released, wherever backward was called
                except RuntimeError:
                    ok = ok and not root.req
        elif op == 10:           # numpy() refuses tensors that require grad
            if live:
                p = live[a %% len(live)]
                try:
                    p.t.numpy()
                    ok = ok and not p.req
                except RuntimeError:
                    ok = ok and p.req
        else:                    # detach(): fresh leaf that does not require grad
            if live:
                p = live[a %% len(live)]
                t = p.t.detach()
                live.append(R(t, False, False, p.floating, [], retain_on))
        ok = ok and _mode_is(mode[-1]) and _consistent(live)
        live = live[-3:]
    while entered:
        entered.pop().__exit__(None, None, None)
    del _LEFT[:]
    _reset_modes()
    return ok


def %(name)s_twin(rest: List[Tuple[int, int]]) -> bool:
    """
    pre: len(rest) <= MAXLEN
    pre: all(0 <= a[0] <= 13 and 0 <= a[1] <= 3 for a in rest)
    post: False
    """
    return True
'''

H3 = r'''
import numpy as np
from typing import List, Tuple
import synapgrad
from synapgrad import nn
from crosshair.tracers import NoTracing
TM = sys.modules["synapgrad.tensor"]
NF = sys.modules.get("synapgrad.nn.functional") or __import__("importlib").import_module("synapgrad.nn.functional")
LO = %(lo)d
HI = %(hi)d


def _a(*shape):
    n = int(np.prod(shape)) if shape else 1
    return (np.arange(1, n + 1, dtype=np.float32).reshape(shape) + 1.0) / (n + 3.0)      # in (0, 1): log, sqrt, bce are defined


_Y = np.array([1, 0], dtype=np.int64)
# (name, operand shapes, call) - every differentiable operation of the public API, operator and reflected forms
OPS = [
    ("add", [(2,), (2,)], lambda t: t[0] + t[1]),
    ("add broadcast", [(2, 1), (2,)], lambda t: t[0] + t[1]),
    ("add scalar", [(2,)], lambda t: t[0] + 2.0),
    ("radd", [(2,)], lambda t: 2.0 + t[0]),
    ("sub", [(2,), (2,)], lambda t: t[0] - t[1]),
    ("rsub", [(2,)], lambda t: 2.0 - t[0]),
    ("mul", [(2,), (2,)], lambda t: t[0] * t[1]),
    ("rmul", [(2,)], lambda t: 2.0 * t[0]),
    ("div", [(2,), (2,)], lambda t: t[0] / t[1]),
    ("rdiv", [(2,)], lambda t: 2.0 / t[0]),
    ("neg", [(2,)], lambda t: -t[0]),
    ("matmul", [(2, 2), (2, 2)], lambda t: t[0] @ t[1]),
    ("addmm", [(2, 2), (2, 2), (2, 2)], lambda t: synapgrad.addmm(t[0], t[1], t[2])),
    ("pow", [(2,)], lambda t: t[0] ** 2),
    ("rpow", [(2,)], lambda t: 2.0 ** t[0]),
    ("exp", [(2,)], lambda t: t[0].exp()),
    ("log", [(2,)], lambda t: t[0].log()),
    ("sqrt", [(2,)], lambda t: t[0].sqrt()),
    ("sum", [(2, 2)], lambda t: t[0].sum()),
    ("sum dim", [(2, 2)], lambda t: t[0].sum(1)),
    ("mean", [(2, 2)], lambda t: t[0].mean()),
    ("mean dim", [(2, 2)], lambda t: t[0].mean(0, True)),
    ("max", [(2, 2)], lambda t: t[0].max()),
    ("max dim", [(2, 2)], lambda t: t[0].max(1)),
    ("min", [(2, 2)], lambda t: t[0].min()),
    ("min dim", [(2, 2)], lambda t: t[0].min(0)),
    ("getitem", [(2, 2)], lambda t: t[0][0]),
    ("getitem list", [(3,)], lambda t: t[0][[0, 2]]),
    ("concat 2", [(2,), (2,)], lambda t: synapgrad.concat([t[0], t[1]], 0)),
    ("concat 3", [(2, 1), (2, 2), (2, 1)], lambda t: synapgrad.concat([t[0], t[1], t[2]], 1)),
    ("concat 1", [(2,)], lambda t: synapgrad.concat([t[0]], 0)),
    ("stack 2", [(2,), (2,)], lambda t: synapgrad.stack([t[0], t[1]], 0)),
    ("stack 3", [(2,), (2,), (2,)], lambda t: synapgrad.stack([t[0], t[1], t[2]], 1)),
    ("unbind", [(2, 2)], lambda t: list(synapgrad.unbind(t[0], 0))),
    ("clone", [(2,)], lambda t: t[0].clone()),
    ("squeeze", [(2, 1)], lambda t: t[0].squeeze()),
    ("unsqueeze", [(2,)], lambda t: t[0].unsqueeze(0)),
    ("reshape", [(2, 2)], lambda t: t[0].reshape((4,))),
    ("movedim", [(2, 3)], lambda t: t[0].movedim(0, 1)),
    ("transpose", [(2, 3)], lambda t: t[0].transpose(0, 1)),
    ("flatten", [(2, 2)], lambda t: t[0].flatten()),
    ("unfold", [(3,)], lambda t: t[0].unfold(0, 2, 1)),
    ("relu", [(2,)], lambda t: NF.relu(t[0])),
    ("leaky_relu", [(2,)], lambda t: NF.leaky_relu(t[0], 0.1)),
    ("selu", [(2,)], lambda t: NF.selu(t[0])),
    ("tanh", [(2,)], lambda t: NF.tanh(t[0])),
    ("sigmoid", [(2,)], lambda t: NF.sigmoid(t[0])),
    ("softmax", [(2, 2)], lambda t: NF.softmax(t[0], 1)),
    ("log_softmax", [(2, 2)], lambda t: NF.log_softmax(t[0], 0)),
    ("mse_loss", [(2,), (2,)], lambda t: NF.mse_loss(t[0], t[1])),
    ("MSELoss", [(2,), (2,)], lambda t: nn.MSELoss()(t[0], t[1])),
    ("bce", [(2,), (2,)], lambda t: NF.binary_cross_entropy(t[0], t[1])),
    ("bce_with_logits", [(2,), (2,)], lambda t: NF.binary_cross_entropy_with_logits(t[0], t[1])),
    ("nll_loss", [(2, 2)], lambda t: NF.nll_loss(t[0], synapgrad.Tensor(_Y))),
    ("cross_entropy", [(2, 2)], lambda t: NF.cross_entropy(t[0], synapgrad.Tensor(_Y))),
    ("CrossEntropyLoss", [(2, 2)], lambda t: nn.CrossEntropyLoss()(t[0], synapgrad.Tensor(_Y))),
    ("linear", [(2, 3), (2, 3), (2,)], lambda t: NF.linear(t[0], t[1], t[2])),
    ("linear no bias", [(2, 3), (2, 3)], lambda t: NF.linear(t[0], t[1])),
    ("conv1d", [(1, 2, 3), (2, 2, 2), (2,)], lambda t: NF.conv1d(t[0], t[1], t[2])),
    ("conv1d no bias", [(1, 2, 3), (2, 2, 2)], lambda t: NF.conv1d(t[0], t[1])),
    ("conv2d", [(1, 1, 3, 3), (2, 1, 2, 2), (2,)], lambda t: NF.conv2d(t[0], t[1], t[2])),
    ("conv2d no bias", [(1, 1, 3, 3), (2, 1, 2, 2)], lambda t: NF.conv2d(t[0], t[1])),
    ("max_pool1d", [(1, 1, 4)], lambda t: NF.max_pool1d(t[0], 2)),
    ("avg_pool1d", [(1, 1, 4)], lambda t: NF.avg_pool1d(t[0], 2)),
    ("max_pool2d", [(1, 1, 2, 2)], lambda t: NF.max_pool2d(t[0], 2)),
    ("avg_pool2d", [(1, 1, 2, 2)], lambda t: NF.avg_pool2d(t[0], 2)),
    ("nn.unfold", [(1, 1, 3, 3)], lambda t: NF.unfold(t[0], 2)),
    ("nn.fold", [(1, 4, 4)], lambda t: NF.fold(t[0], (3, 3), 2)),
    ("batch_norm", [(3, 2), (2,), (2,)], lambda t: NF.batch_norm(t[0], t[1], t[2], None, None, True)),
    ("batch_norm eval", [(3, 2), (2,), (2,)], lambda t: NF.batch_norm(t[0], t[1], t[2], synapgrad.Tensor(np.zeros(2, dtype=np.float32)),
                                                                  synapgrad.Tensor(np.ones(2, dtype=np.float32)), False)),
    ("Dropout", [(4,)], lambda t: nn.Dropout(0.5)(t[0])),
    ("Flatten", [(2, 2)], lambda t: nn.Flatten()(t[0])),
    # layers that own parameters: the parameters require grad, so the result does whenever gradient mode is on - whatever the input's flag
    ("Linear layer", [(2, 3)], lambda t: nn.Linear(3, 2)(t[0]), True),
    ("Linear layer no bias", [(2, 3)], lambda t: nn.Linear(3, 2, bias=False)(t[0]), True),
    ("Conv1d layer", [(1, 2, 3)], lambda t: nn.Conv1d(2, 2, 2)(t[0]), True),
    ("Conv2d layer", [(1, 1, 3, 3)], lambda t: nn.Conv2d(1, 2, 2)(t[0]), True),
    ("BatchNorm1d layer", [(3, 2)], lambda t: nn.BatchNorm1d(2)(t[0]), True),
    ("BatchNorm2d layer", [(2, 2, 1, 2)], lambda t: nn.BatchNorm2d(2)(t[0]), True),
    ("Neuron layer", [(2, 3)], lambda t: nn.Neuron(3)(t[0]), True),
]


def %(name)s(opi: int, f0: bool, f1: bool, f2: bool, grad_on: bool) -> bool:
    """
    pre: LO <= opi < HI
    post: __return__ == True
    """
    _PATHS[0] += 1
    _reset_modes()
    name, shapes, call = OPS[opi][:3]
    owns_params = len(OPS[opi]) > 3
    flags = [f0, f1, f2][:len(shapes)]
    ts = [synapgrad.Tensor(_a(*sh), requires_grad=bool(fl)) for sh, fl in zip(shapes, flags)]
    ctx = None
    if not grad_on:
        ctx = synapgrad.no_grad()
        ctx.__enter__()
        _LEFT.append(ctx)
    try:
        # every argument is concrete by now; the strided-view kernels (as_strided) do not run under CrossHair's tracer, which
        # replaces the dict that NumPy's __array_interface__ protocol insists on
        with NoTracing():
            res = call(ts)
    finally:
        if ctx is not None:
            ctx.__exit__(None, None, None)
            _LEFT.pop()
    want = bool(grad_on) and (owns_params or any(bool(fl) for fl in flags))
    ok = True
    outs = res if isinstance(res, list) else [res]
    for o in outs:
        ok = ok and (o.requires_grad == want) and ((o.grad_fn is not None) == want) and (o.is_leaf == (not want)) and _g(o) is None
    o = outs[-1]
    try:
        with NoTracing():
            o.backward(synapgrad.Tensor(np.ones(o.shape, dtype=np.float32)))
        ok = ok and want
        for t, fl in zip(ts, flags):
            ok = ok and ((_g(t) is not None) == bool(fl))      # every flagged operand received a gradient, no other did
    except RuntimeError:
        ok = ok and not want
        for x in outs + ts:
            ok = ok and _g(x) is None                           # a refused backward leaves no gradient anywhere
    _reset_modes()
    return ok


def %(name)s_twin(opi: int, f0: bool, f1: bool, f2: bool, grad_on: bool) -> bool:
    """
    pre: LO <= opi < HI
    post: False
    """
    return True
'''

H4 = r'''
import contextlib
import numpy as np
from typing import List, Tuple
import synapgrad
KIND = %(kind)d


def _ctx(c):
    # 0 nothing, 1 retain_grads, 2 no_grad nested in retain_grads is not a computing context for tracked results: only 0/1 here
    return synapgrad.retain_grads() if c else contextlib.nullcontext()


def %(name)s(cy: bool, my: bool, cw: bool, mw: bool, cb: bool, deep: bool, again: bool) -> bool:
    """
    post: __return__ == True
    """
    # leaf x -> y = exp(x) -> w = y * x -> (deep: root = exp(w), else root = w); every intermediate result is computed either
    # inside (c*) or outside a retain_grads block and is marked with retain_grad() (m*) or not; backward is called inside (cb)
    # or outside a block.  Kept after backward: leaves, the root, and intermediates that were marked or computed under
    # retain_grads - nothing else, wherever backward was called.
    _PATHS[0] += 1
    _reset_modes()
    one = synapgrad.Tensor(np.ones((2,), dtype=np.float32))
    x = synapgrad.Tensor(np.ones((2,), dtype=np.float32) * 0.5, requires_grad=True)
    with _ctx(cy):
        y = x.exp() if KIND == 0 else x * 2.0
    if my:
        y.retain_grad()
    with _ctx(cw):
        w = y * x if KIND == 0 else y + x
    if mw:
        w.retain_grad()
    root = w.exp() if deep else w
    with _ctx(cb):
        root.backward(one)
    ok = _g(x) is not None and _g(root) is not None
    ok = ok and ((_g(y) is not None) == (cy or my))
    if deep:
        ok = ok and ((_g(w) is not None) == (cw or mw))
    if again and ok:
        # a second call from the same root in the opposite setting changes nothing about who keeps a gradient
        with _ctx(not cb):
            root.backward(one)
        ok = ok and ((_g(y) is not None) == (cy or my)) and _g(x) is not None
        if deep:
            ok = ok and ((_g(w) is not None) == (cw or mw))
    return ok and _mode_is((True, False))


def %(name)s_twin(cy: bool, my: bool, cw: bool, mw: bool, cb: bool, deep: bool, again: bool) -> bool:
    """
    post: False
    """
    return True
'''

N_OPS3 = H3.count('\n    ("')


def partitions(tier):
    """quick: every first action fixed + 3 (h1) / 2 (h2) symbolic followers.  thorough: histories one action longer; a single
    fixed first action no longer finishes there for the actions that create state (9 of 59 partitions timed out at 900 s), so the
    thorough tier fixes a *prefix of two* actions - all 9 x 18 prefixes of h1; for h2 every (tensor-creating first action) x
    (any second action) - and keeps the same number of symbolic followers as quick, which covers the same histories"""
    parts = []
    h1_first = [(op, a) for op in range(8) for a in ((0, 1) if op == 2 else (0,))]
    h1_any = [(op, a) for op in range(9) for a in (0, 1)]
    h2_args = {3: (0, 1), 4: (0, 1, 2, 3), 12: (0, 1), 5: (0, 1), 6: (0, 1, 2, 3), 7: (0, 1, 2, 3), 8: (0, 1), 9: (0, 1), 10: (0,), 11: (0,)}
    h2_first = [(op, a) for op in range(14) for a in h2_args.get(op, (0,))]
    if tier == "quick":
        parts += [("h1", f, 3) for f in h1_first]
        parts += [("h2", f, 2) for f in h2_first]
    else:
        parts += [("h1", [f, g], 3) for f in h1_first for g in h1_any]
        creating = (3, 4, 12, 13)
        for f in h2_first:
            if f[0] in creating:
                parts += [("h2", [f, g], 2) for g in h2_first]
            else:
                parts.append(("h2", f, 3))
    step = 8 if tier == "quick" else 4
    for lo in range(0, N_OPS3, step):
        parts.append(("h3", (lo, min(N_OPS3, lo + step)), 0))
    parts.append(("h4", (0, 0), 0))
    parts.append(("h4", (1, 0), 0))
    return parts


def main(tier, seed):
    t0 = time.time()
    parts = partitions(tier)
    body = []
    names = []
    for i, (kind, first, maxlen) in enumerate(parts):
        name = "%s_p%d" % (kind, i)
        if kind == "h3":
            src = H3 % {"lo": first[0], "hi": first[1], "name": name}
        elif kind == "h4":
            src = H4 % {"kind": first[0], "name": name}
        else:
            tmpl = H1 if kind == "h1" else H2
            src = tmpl % {"first": first, "maxlen": maxlen, "name": name}
        if i > 0:
            # keep one copy of the shared helpers per template kind
            pass
        body.append((name, kind, first, maxlen, src))
    results = []
    files = []
    for name, kind, first, maxlen, src in body:
        path = e2.write_module("c07_" + name, src)
        files.append((path, name, kind, first, maxlen))
    timeout = 120 if tier == "quick" else 900
    from concurrent.futures import ThreadPoolExecutor
    procs = int(os.environ.get("VERIF_PROCS", "16"))

    def job(item):
        path, name, kind, first, maxlen = item
        r = e2.run_one(path, name, timeout)
        tw = e2.run_one(path, name + "_twin", 20)
        r["twin"] = tw["status"]
        r["path"] = path
        r["kind"], r["first"], r["maxlen"] = kind, first, maxlen
        return r
    with ThreadPoolExecutor(max_workers=procs) as ex:
        results = list(ex.map(job, files))
    return finish(PROP, tier, seed, results, t0, {
        "h1": "mode stack: ops 0 construct no_grad, 1 construct retain_grads, 2 enter a constructed one, 3 with no_grad, "
              "4 with retain_grads, 5 exit, 6 exit by exception, 7 probe, 8 re-enter an object that is already entered; %s" % ("first action fixed per partition + <= 3 symbolic followers" if tier == "quick" else "a prefix of two actions fixed per partition (all 9 x 18) + <= 3 symbolic followers"),
        "h2": "flags/backward: ops 0-2 contexts, 3 float leaf, 4 int leaf, 5 unary, 6 binary, 7 set requires_grad, "
              "8 retain_grad, 9 backward, 10 numpy(), 11 detach, 12 float leaf from int data via dtype=, 13 computed leaf flagged afterwards; %s" % ("first action fixed per partition + <= 2 symbolic followers" if tier == "quick" else "first action fixed + <= 3 symbolic followers; behind a tensor-creating first action a prefix of two actions (every second action) + <= 2 symbolic followers"),
        "h4": "retention of intermediate gradients: chain leaf -> y -> w -> (root), each intermediate computed inside/outside retain_grads and "
              "marked with retain_grad() or not, backward inside/outside a block, optionally a second backward in the opposite setting "
              "(7 symbolic booleans, 2 operation pairs)",
        "h3": "requires_grad propagation per operation: %d operations of the public API (operator, reflected, functional and layer forms, "
              "1-3 operands, multi-output unbind), the requires_grad flag of every operand and the gradient mode symbolic; result flag, "
              "grad_fn, is_leaf, refusal of backward and which operands receive a gradient are asserted" % N_OPS3})


FUNCS = {
    "C07": ["synapgrad.tensor:no_grad", "synapgrad.tensor:retain_grads", "synapgrad.tensor:Tensor.__init__",
            "synapgrad.tensor:Tensor.backward", "synapgrad.tensor:Tensor.requires_grad", "synapgrad.tensor:Tensor.retain_grad",
            "synapgrad.tensor:Tensor.numpy", "synapgrad.tensor:Tensor.detach", "synapgrad.functional:* (every op: result flag and grad_fn)",
            "synapgrad.nn.functional:* (every op: result flag and grad_fn)"],
    "C12": ["synapgrad.nn.modules:Module.__setattr__", "synapgrad.nn.modules:Module.register_parameter",
            "synapgrad.nn.modules:Module.register_module", "synapgrad.nn.modules:Module.parameters",
            "synapgrad.nn.modules:Module.submodules", "synapgrad.nn.modules:Module.num_params", "synapgrad.nn.modules:Module.train",
            "synapgrad.nn.modules:Module.eval", "synapgrad.nn.modules:Module.freeze", "synapgrad.nn.modules:Module.unfreeze",
            "synapgrad.nn.modules:Module.zero_grad", "synapgrad.nn.modules:Sequential.__init__", "synapgrad.nn.modules:Sequential.forward"],
    "C18": ["synapgrad.nn.utils.data:DataLoader.__init__", "synapgrad.nn.utils.data:DataLoader.__len__",
            "synapgrad.nn.utils.data:DataLoader.__iter__", "synapgrad.nn.utils.data:DataLoader.__next__",
            "synapgrad.nn.utils.data:DataLoader.__getitem__"],
}


def finish(prop, tier, seed, results, t0, bounds):
    """shared by the CrossHair-based checks: known findings, VIOLATION lines, evidence"""
    import json
    findings = runner.load_findings()
    n_viol = 0
    lines = []
    known = {}
    samples = []
    for r in results:
        sig = "%s:first=%s" % (r.get("kind"), r.get("first"))
        r["sig"] = sig
        if r["status"] == "counterexample":
            viol, detail = e2.replay_call(r["path"], r["call"]) if r.get("call") else (False, "no call parsed")
            r["replayed"] = viol
            r["replay_detail"] = detail
            if not viol:
                r["status"] = "unknown"
                r["message"] = "counterexample not reproduced in a plain interpreter: " + detail
                continue
            call_sig = "%s %s" % (sig, r["call"])
            k = runner.match_known(prop, call_sig, "", findings)
            if k is not None:
                known.setdefault(k["selector"], (k, []))[1].append(call_sig)
                continue
            n_viol += 1
            path = runner.write_replay(prop, {"sig": call_sig, "module": None, "spec": {"harness": r["path"], "call": r["call"]}},
                                       {"label": "history", "kind": "crosshair", "detail": r["message"], "replay": detail})
            lines.append("VIOLATION property=%s replay=%s" % (prop, path))
            lines.append("  partition %s: %s" % (sig, r["message"][:300]))
            lines.append("  reproduced: %s" % detail[:300])
    for sel, (k, sigs) in known.items():
        print("KNOWN-FINDING: property=%s %s (e.g. %s)" % (prop, k["what"], sigs[0]))
    for ln in lines:
        print(ln)
    conf = [r for r in results if r["status"] == "confirmed"]
    unk = [r for r in results if r["status"] == "unknown"]
    twins_ok = sum(1 for r in results if r.get("twin") == "counterexample")
    paths = sum(r.get("paths", 0) for r in results)
    cov = {
        "states": max(paths, 1), "transitions": max(len(results) * 2, 1), "traces_validated_against_impl": sum(1 for r in results if r.get("replayed")),
        "samples": [{"partition": r["sig"], "status": r["status"], "paths": r.get("paths"), "wall_s": r.get("wall_s")} for r in results[:4]],
        "partitions": len(results), "partitions_confirmed_over_all_paths": len(conf), "partitions_inconclusive": len(unk),
        "inconclusive_examples": [{"partition": r["sig"], "why": r["message"][:160]} for r in unk[:8]],
        "reachability_twins_refuted": twins_ok, "paths_executed": paths, "obligations": len(results), "discharged": len(conf),
        "solver_time_s": round(sum(r.get("wall_s", 0) for r in results), 1), "bounds": bounds, "exhaustive": len(unk) == 0,
        "rule": "one state = one execution path of the harness interpreter loop explored by CrossHair (z3 decides branch "
                "feasibility over the symbolic action history); partitions fix the first action",
        "functions_encoded": FUNCS.get(prop, []),
        "known_findings_hit": [k["what"] for k, _ in known.values()], "unlisted_violations": n_viol,
        "stubs": ["tensor data is concrete (values are irrelevant to the flags); CrossHair realises symbolic values at the NumPy boundary"],
    }
    ev = {"property_id": prop, "tier": tier, "seed": seed, "level": "model_checking", "coverage": cov,
          "assumptions": ["history length bounded as stated; only 'Confirmed over all paths' counts as discharged",
                          "retention of intermediate gradients: kept iff the tensor was marked with retain_grad() or computed "
                          "under retain_grads, wherever backward is called (the statement's wording)"],
          "wall_s": round(time.time() - t0, 2), "violations": n_viol}
    os.makedirs(os.path.join(runner.OUT, "evidence"), exist_ok=True)
    with open(os.path.join(runner.OUT, "evidence", prop + ".json"), "w") as f:
        json.dump(ev, f, indent=1, default=str)
    print("%s %s: %d partitions, %d confirmed over all paths, %d inconclusive, %d paths executed, %d/%d reachability twins refuted, "
          "%d unlisted violations, %.1fs wall" % (prop, tier, len(results), len(conf), len(unk), paths, twins_ok, len(results), n_viol,
                                                  time.time() - t0))
    for r in unk[:5]:
        print("  inconclusive %s: %s" % (r["sig"], r["message"][:200]))
    if n_viol:
        return 1
    if results and not conf and not known:
        print("HARNESS-ERROR: no partition could be confirmed")
        return 2
    return 0
