"""C02 - backward of every nn op / layer / loss is the exact vector-Jacobian product."""
from __future__ import annotations

import itertools
import json
import zlib
import time

import numpy as np

from .. import opcat_nn as cat
from ..harness import OpCase, T, elem_names, sig_of, gradof, set_grad
from ..symnum import engine as E
from .. import runner

PROP = "C02"


def enumerate_specs(tier):
    specs = []
    for name, od in cat.REG.items():
        for args in od.configs(tier):
            ins = od.inputs(args)
            diff = [i for i, sp in enumerate(ins) if sp.differentiable]
            masks = []
            full = [1 if i in diff else 0 for i in range(len(ins))]
            masks.append(full)
            if len(diff) > 1:
                for i in diff:
                    masks.append([1 if j == i else 0 for j in range(len(ins))])
            for m in masks:
                specs.append({"op": name, "args": args, "variant": {"req": m}})
            ci = zlib.crc32(json.dumps([name, args], sort_keys=True).encode())   # stable under additions to the catalogue
            if ci % 4 == 0 and len(ins[0].shape) >= 2:     # first operand as a non-contiguous view
                specs.append({"op": name, "args": args, "variant": {"req": full, "layout": "T" if ci % 8 == 0 else "S"}})
            if od.smooth_at_zero(args):              # an input entry that is exactly 0
                specs.append({"op": name, "args": args, "variant": {"req": full, "zero_first": True}})
            if tier != "quick" or ci % 3 == 0:      # the same graph differentiated twice
                specs.append({"op": name, "args": args, "variant": {"req": full, "twice": True}})
    return specs


# ---------------------------------------------------------------------------------------------- one layer, several calls
def _layers():
    """name -> (constructor(nn, env, Tn), input shape, domain of the input)"""
    def lin(nn, env, Tn):
        m = nn.Linear(2, 2)
        m.weight = nn.Parameter(Tn(env.arr("W", (2, 2)), requires_grad=True))
        m.bias = nn.Parameter(Tn(env.arr("b", (2,)), requires_grad=True))
        return m, [("W", m.weight, (2, 2)), ("b", m.bias, (2,))]

    def conv1(nn, env, Tn):
        m = nn.Conv1d(1, 1, 2)
        m.weight = nn.Parameter(Tn(env.arr("W", (1, 1, 2)), requires_grad=True))
        m.bias = nn.Parameter(Tn(env.arr("b", (1,)), requires_grad=True))
        return m, [("W", m.weight, (1, 1, 2)), ("b", m.bias, (1,))]

    def conv2(nn, env, Tn):
        m = nn.Conv2d(1, 1, 2)
        m.weight = nn.Parameter(Tn(env.arr("W", (1, 1, 2, 2)), requires_grad=True))
        m.bias = nn.Parameter(Tn(env.arr("b", (1,)), requires_grad=True))
        return m, [("W", m.weight, (1, 1, 2, 2)), ("b", m.bias, (1,))]

    def bn(training, track=True):
        def mk(nn, env, Tn):
            m = nn.BatchNorm1d(1, eps=env.scalar("eps", lo=0, hi=0.5, lo_strict=True, kind="data"),
                               momentum=env.scalar("mom", lo=0, hi=1, lo_strict=True, hi_strict=True, kind="data"),
                               track_running_stats=track)
            m.weight = nn.Parameter(Tn(env.arr("gamma", (1,)), requires_grad=True))
            m.bias = nn.Parameter(Tn(env.arr("beta", (1,)), requires_grad=True))
            if track:
                m.running_mean = Tn(env.arr("rm", (1,)))
                m.running_var = Tn(env.arr("rv", (1,), lo=0.1, hi=3))
            if not training:
                m.eval()
            return m, [("gamma", m.weight, (1,)), ("beta", m.bias, (1,))]
        return mk
    plain = lambda f: (lambda nn, env, Tn: (f(nn), []))      # noqa: E731
    return {
        "Dropout(0.5)": (plain(lambda nn: nn.Dropout(0.5)), (2,), {}),
        "Dropout(0.75)": (plain(lambda nn: nn.Dropout(0.75)), (1, 2), {}),
        "BatchNorm1d train": (bn(True), (2, 1), {}),
        "BatchNorm1d eval": (bn(False), (2, 1), {}),
        "BatchNorm1d no stats": (bn(True, False), (2, 1), {}),
        "Linear": (lin, (1, 2), {}),
        "Conv1d": (conv1, (1, 1, 3), {}),
        "Conv2d": (conv2, (1, 1, 2, 2), {}),
        "MaxPool1d": (plain(lambda nn: nn.MaxPool1d(2)), (1, 1, 2), {}),
        "MaxPool2d": (plain(lambda nn: nn.MaxPool2d(2)), (1, 1, 2, 2), {}),
        "AvgPool1d": (plain(lambda nn: nn.AvgPool1d(2)), (1, 1, 2), {}),
        "AvgPool2d": (plain(lambda nn: nn.AvgPool2d(2)), (1, 1, 2, 2), {}),
        "ReLU": (plain(lambda nn: nn.ReLU()), (2,), {}),
        "LeakyReLU": (plain(lambda nn: nn.LeakyReLU(0.25)), (2,), {}),
        "SELU": (plain(lambda nn: nn.SELU()), (2,), {}),
        "Tanh": (plain(lambda nn: nn.Tanh()), (2,), {}),
        "Sigmoid": (plain(lambda nn: nn.Sigmoid()), (2,), {}),
        "Softmax": (plain(lambda nn: nn.Softmax(1)), (1, 2), {}),
        "LogSoftmax": (plain(lambda nn: nn.LogSoftmax(1)), (1, 2), {}),
        "Flatten": (plain(lambda nn: nn.Flatten()), (1, 2, 1), {}),
        "Unfold": (plain(lambda nn: nn.Unfold(2)), (1, 1, 2, 3), {}),
        "Fold": (plain(lambda nn: nn.Fold((2, 2), 1)), (1, 1, 4), {}),
    }


class SharedLayerCase:
    """one layer *instance* applied to several inputs before any backward runs (a layer shared by two branches, an unrolled
    loop): every input still receives the VJP of the function its own forward call computed, whatever the layer keeps
    between calls; parameters receive the sum."""
    prop = PROP

    def __init__(self, spec):
        self.spec = spec
        self.sig = sig_of("shared-layer", spec, None)

    def run(self, env):
        from synapgrad import nn
        Tn = T()
        out = E.Outcome()
        mk, shape, dom = _layers()[self.spec["layer"]]
        m, params = mk(nn, env, Tn)
        xs, ys = [], []
        for k in range(self.spec["calls"]):
            x = Tn(env.arr("x%d" % k, shape, **dom), requires_grad=True)
            xs.append(x)
            ys.append(m(x))
        order = list(range(len(ys)))
        if self.spec["order"] == "reverse":
            order.reverse()
        gs = {}
        for k in order:
            g = env.arr("g%d" % k, ys[k].shape, lo=-2, hi=2)
            gs[k] = g
            ys[k].backward(Tn(g))
        out.vjp = dict(outs=[ys[k].data for k in order], gs=[gs[k] for k in order],
                       inputs=[("x%d" % k, x.data, gradof(x), True) for k, x in enumerate(xs)] +
                              [(lab, t.data, gradof(t), True) for lab, t, _ in params])
        names = {"x%d" % k: elem_names("x%d" % k, shape) for k in range(len(xs))}
        names.update({lab: elem_names(lab, sh) for lab, t, sh in params})
        out.notes["names"] = names
        return out


def shared_specs(tier):
    specs = []
    for name in _layers():
        for order in ("forward", "reverse"):
            specs.append({"shared": {"layer": name, "calls": 2, "order": order}})
        if tier != "quick":
            specs.append({"shared": {"layer": name, "calls": 3, "order": "reverse"}})
    return specs


def build(spec):
    if "shared" in spec:
        return SharedLayerCase(spec["shared"])
    return OpCase(PROP, cat.REG[spec["op"]], spec["args"], spec.get("variant"))


def main(tier, seed):
    t0 = time.time()
    specs = enumerate_specs(tier)
    results = runner.run_pool(__name__, specs, tier, seed, optkw={"ties": True}, chain=4)
    results += runner.run_pool(__name__, shared_specs(tier), tier, seed)
    return runner.finish(
        PROP, tier, seed, results, t0,
        bounds={"spatial": "L<=6, H,W<=4", "kernel": "k<=3", "stride": "<=3 (1d) / <=2 (2d)", "padding": "<=2 (1d) / <=1 (2d)",
                "dilation": "<=2", "batch/channels": "<=2 (3 for batch norm)", "classes": "<=3",
                "max-pool": "configurations whose arg-max pattern count exceeds the path budget are skipped",
                "ops": sorted(cat.REG),
                "shared layers": "one instance of each of %d layers applied to 2 (thorough: 3) inputs before the backward calls, "
                                 "in both backward orders" % len(_layers())},
        assumptions=["floats are modelled as reals (no rounding)",
                     "two-way kinks/ties (relu family at 0, one tied pair in a pooling window) are examined separately: the gradient must lie on the segment between the gradients of the two adjacent smooth pieces; higher-order ties are outside the claim",
                     "cpu_ops.epsilon := 0 for log_softmax / BCE / BCE-with-logits / cross-entropy (guard effects belong to C09)",
                     "BCE probabilities in (0,1), targets in [0,1], running variance > 0, eps > 0",
                     "dropout: the uniform draws are fresh symbolic values in [0,1) (generator contract)"],
        stubs=["np.random.* inside synapgrad -> fresh symbolic draws", "cpu_ops.epsilon := 0 where listed",
               "numpy creators inside synapgrad return constant symbolic arrays"],
        rule="one configuration = building block x geometry/shape x mode x requires-grad mask; inputs, parameters, "
             "running statistics, targets, eps, momentum and the upstream gradient are symbolic")
