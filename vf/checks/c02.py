"""C02 - backward of every nn op / layer / loss is the exact vector-Jacobian product."""
from __future__ import annotations

import itertools
import time

from .. import opcat_nn as cat
from ..harness import OpCase
from .. import runner

PROP = "C02"


def enumerate_specs(tier):
    specs = []
    for name, od in cat.REG.items():
        for args in od.configs(tier):
            ins = od.inputs(args)
            diff = [i for i, sp in enumerate(ins) if sp.differentiable]
            masks = []
            full = [1 if i in diff else 0 for i in range(len(ins))]
            masks.append(full)
            if len(diff) > 1:
                for i in diff:
                    masks.append([1 if j == i else 0 for j in range(len(ins))])
            for m in masks:
                specs.append({"op": name, "args": args, "variant": {"req": m}})
            ci = len(specs)
            if ci % 4 == 0 and len(ins[0].shape) >= 2:     # first operand as a non-contiguous view
                specs.append({"op": name, "args": args, "variant": {"req": full, "layout": "T" if ci % 8 == 0 else "S"}})
    return specs


def build(spec):
    return OpCase(PROP, cat.REG[spec["op"]], spec["args"], spec.get("variant"))


def main(tier, seed):
    t0 = time.time()
    specs = enumerate_specs(tier)
    results = runner.run_pool(__name__, specs, tier, seed, optkw={"ties": True}, chain=4)
    return runner.finish(
        PROP, tier, seed, results, t0,
        bounds={"spatial": "L<=6, H,W<=4", "kernel": "k<=3", "stride": "<=3 (1d) / <=2 (2d)", "padding": "<=2 (1d) / <=1 (2d)",
                "dilation": "<=2", "batch/channels": "<=2 (3 for batch norm)", "classes": "<=3",
                "max-pool": "configurations whose arg-max pattern count exceeds the path budget are skipped",
                "ops": sorted(cat.REG)},
        assumptions=["floats are modelled as reals (no rounding)",
                     "two-way kinks/ties (relu family at 0, one tied pair in a pooling window) are examined separately: the gradient must lie on the segment between the gradients of the two adjacent smooth pieces; higher-order ties are outside the claim",
                     "cpu_ops.epsilon := 0 for log_softmax / BCE / BCE-with-logits / cross-entropy (guard effects belong to C09)",
                     "BCE probabilities in (0,1), targets in [0,1], running variance > 0, eps > 0",
                     "dropout: the uniform draws are fresh symbolic values in [0,1) (generator contract)"],
        stubs=["np.random.* inside synapgrad -> fresh symbolic draws", "cpu_ops.epsilon := 0 where listed",
               "numpy creators inside synapgrad return constant symbolic arrays"],
        rule="one configuration = building block x geometry/shape x mode x requires-grad mask; inputs, parameters, "
             "running statistics, targets, eps, momentum and the upstream gradient are symbolic")
