"""C01 - backward of every tensor op is the exact vector-Jacobian product (DESIGN section 4, C01)."""
from __future__ import annotations

import itertools
import json
import zlib
import time

from .. import opcat_tensor as cat
from ..harness import OpCase
from .. import runner

PROP = "C01"
SKIP_OPS = ()


def enumerate_specs(tier):
    specs = []
    for name, od in cat.REG.items():
        for args in od.configs(tier):
            n = len(od.inputs(args))
            if args.get("precise"):   # double-precision comparison with the real guard constants in place
                specs.append({"op": name, "args": args, "variant": {"req": [1] * n, "dtype": "float64", "precise": True}})
                continue
            if args.get("xr"):        # a degenerate argument value: the gradient must stay finite (extended-real run)
                specs.append({"op": name, "args": args, "variant": {"req": [1] * n, "xr": True}})
            masks = [m for m in itertools.product((1, 0), repeat=n) if any(m)]
            if tier == "quick" and n >= 2:
                # all-on, plus each operand alone
                masks = [m for m in masks if sum(m) in (1, n)]
            for m in masks:
                specs.append({"op": name, "args": args, "variant": {"req": list(m)}})
            ci = zlib.crc32(json.dumps([name, args], sort_keys=True).encode())   # stable under additions to the catalogue
            if ci % 2 == 0 and len(od.inputs(args)[0].shape) >= 2:     # first operand as a non-contiguous view
                specs.append({"op": name, "args": args, "variant": {"req": [1] * n, "layout": "T" if ci % 4 == 0 else "S"}})
            if od.smooth_at_zero(args):              # an operand entry that is exactly 0
                specs.append({"op": name, "args": args, "variant": {"req": [1] * n, "zero_first": True}})
            if tier != "quick" or ci % 3 != 0:      # the same graph differentiated twice
                specs.append({"op": name, "args": args, "variant": {"req": [1] * n, "twice": True}})
    return specs


def build(spec):
    return OpCase(PROP, cat.REG[spec["op"]], spec["args"], spec.get("variant"))


def main(tier, seed):
    t0 = time.time()
    specs = enumerate_specs(tier)
    results = runner.run_pool(__name__, specs, tier, seed, optkw={"ties": True}, chain=4)
    return runner.finish(
        PROP, tier, seed, results, t0,
        bounds={"operand_rank": "0-2 (quick) / 0-3, 4 for permutations and matmul (thorough)", "extents": "1-4",
                "paths_per_configuration": "<= 64 quick / 512 thorough", "ops": sorted(cat.REG)},
        assumptions=["floats are modelled as reals (no rounding)",
                     "two-way ties of max/min (exactly one tied comparison) are examined separately: the gradient must lie on the segment between the gradients of the two adjacent smooth pieces; higher-order ties and ties not exactly realisable in floating point are outside the claim",
                     "log/sqrt/fractional and negative powers on their open natural domain",
                     "cpu_ops.epsilon := 0 for exact identities through log (DESIGN 3.6)",
                     "nothing outside the enumerated shapes/arguments"],
        stubs=["numpy creators inside synapgrad return constant symbolic arrays", "cpu_ops.epsilon := 0 (log)"],
        rule="one configuration = op x operand shapes x argument values x requires-grad mask; values and the "
             "upstream gradient are symbolic; a state is one feasible path of one configuration")
