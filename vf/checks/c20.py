"""C20 - Trainer.fit performs one optimisation step per batch in the right mode; validation/test run in eval mode
without gradient tracking and change nothing; history and metrics are what the documentation says.
Real Trainer / Sequential / SGD / losses / DataLoader on symbolic data and parameters; orchestration enumerated."""
from __future__ import annotations

import time

import numpy as np

from ..harness import T, sig_of, snapshot, gradof, set_grad
from ..symnum import engine as E
from ..symnum import array as ar
from ..symnum import scalar as sc
from ..symnum.scalar import S
from .. import runner, common

PROP = "C20"


def _build_model(env, kind, tag):
    """a small model with a mode-dependent layer; parameters are symbolic"""
    from synapgrad import nn
    Tn = T()
    if kind.endswith("-plain"):
        # evaluator configurations: predictions are compared with thresholds / each other, so the model is kept
        # polynomial (no batch-norm square roots) and the mode-dependent layer is a Dropout with p = 0
        k = 1 if kind.startswith("reg") else 2
        lin = nn.Linear(2, k)
        # concrete initial parameters: after one update the validation predictions are low-degree polynomials of the data
        w0 = np.array([[0.5, -0.25], [-0.75, 0.5]][:k], dtype=np.float32)
        b0 = np.array([0.25, -0.5][:k], dtype=np.float32)
        lin.weight = nn.Parameter(Tn(env.const(w0, np.float32), requires_grad=True))
        lin.bias = nn.Parameter(Tn(env.const(b0, np.float32), requires_grad=True))
        return nn.Sequential(lin, nn.Dropout(0.0)), [lin.weight, lin.bias], []
    if kind == "reg":        # regression head: Linear(2,1) + BatchNorm1d(1)
        lin = nn.Linear(2, 1)
        lin.weight = nn.Parameter(Tn(env.arr(tag + "w", (1, 2)), requires_grad=True))
        lin.bias = nn.Parameter(Tn(env.arr(tag + "b", (1,)), requires_grad=True))
        bn = nn.BatchNorm1d(1)
        return nn.Sequential(lin, bn), [lin.weight, lin.bias, bn.weight, bn.bias], [bn]
    lin = nn.Linear(2, 2)    # classification head: Linear(2,2) + BatchNorm1d(2)
    lin.weight = nn.Parameter(Tn(env.arr(tag + "w", (2, 2)), requires_grad=True))
    lin.bias = nn.Parameter(Tn(env.arr(tag + "b", (2,)), requires_grad=True))
    bn = nn.BatchNorm1d(2)
    return nn.Sequential(lin, bn), [lin.weight, lin.bias, bn.weight, bn.bias], [bn]


class Case:
    prop = PROP

    def __init__(self, spec):
        self.spec = spec
        self.sig = sig_of("fit", spec, None)

    def run(self, env):
        import synapgrad
        from synapgrad import nn, optim
        from synapgrad.nn.utils.train import Trainer, Evaluator
        from synapgrad.nn.utils.data import DataLoader
        tm = common.tensor_mod()
        Tn = T()
        sp = self.spec
        out = E.Outcome()
        mode = sp["evaluator"]
        kind = "cls" if mode in ("multi-class", "categorical") else "reg"
        if mode is not None:
            kind += "-plain"
        bs = sp.get("bs", 2)
        nb, nvb = sp["batches"], (sp.get("val_batches", 1) if sp["val"] else 0)

        def data(prefix, n):
            if mode is not None and (sp["val"] or sp["epochs"] > 1) and prefix == "t":
                # evaluator + validation (or a second epoch): the training batches are concrete, so that the updated parameters are numbers and
                # the validation predictions stay linear in the symbolic validation data (decidable path coverage)
                X = env.const(np.array([[0.5, -1.0], [1.5, 0.25], [-0.75, 0.5], [0.25, 1.25]][:n * bs]), np.float32)
            else:
                X = env.arr(prefix + "X", (n * bs, 2))
            if mode == "multi-class":
                y = np.array([(i + 1) % 2 for i in range(n * bs)], dtype=np.int32)
            elif mode == "categorical":
                y = env.const(np.eye(2)[[(i + 1) % 2 for i in range(n * bs)]], np.float32)
            elif mode == "binary":
                y = env.const(np.array([float(i % 2) for i in range(n * bs)]), np.float32)
            else:
                y = env.arr(prefix + "y", (n * bs,))
            return X, y

        class Batches:
            """DataLoader transform: numpy batches -> tensors (what the training examples of the repository do)"""
            def __call__(self, dl, Xb, yb):
                return Tn(Xb), Tn(yb)
        from synapgrad.nn.utils.data import DataLoaderCallback
        Tr = type("Tr", (DataLoaderCallback,), {"__call__": Batches.__call__})
        Xt, yt = data("t", nb)
        train_loader = DataLoader(Xt, yt, bs, Tr())
        val_loader = None
        if sp["val"]:
            Xv, yv = data("v", nvb)
            val_loader = DataLoader(Xv, yv, bs, Tr())

        model, params, bns = _build_model(env, kind, "m_")
        ref_model, ref_params, ref_bns = _build_model(env, kind, "m_")       # same symbolic parameters, driven by hand
        lr = 0.1
        crit_real = nn.CrossEntropyLoss() if mode == "multi-class" else nn.MSELoss()
        off = ref_off = None
        if sp.get("loss_param"):
            # a learnable offset that belongs to the loss, not to the model: the optimizer owns a parameter the model does not
            # register, and "clearing the gradients" means the gradients of what is updated
            off = nn.Parameter(Tn(env.arr("off", (1,)), requires_grad=True))
            ref_off = nn.Parameter(Tn(snapshot(off.data), requires_grad=True))
        opt_params = list(model.parameters()) + ([off] if off is not None else [])
        opt = optim.SGD(opt_params, lr=lr)
        log = []                      # events observed from outside

        def is_clear(p):
            g = gradof(p)
            if g is None:
                return True
            if env.sym:
                return all(n_.op == "const" and n_.val == 0 for n_ in E.flat_nodes(g)[0])
            return not np.asarray(g, dtype=np.float64).any()

        def all_training(m):
            return [m.training] + [s.training for s in m.submodules()]

        def crit(o, y):
            l = crit_real(o if off is None else o + off, y)
            log.append(("loss", l, all_training(model), common.grad_enabled()))
            if l.requires_grad:
                # observed by behaviour, not by which method did it: when the batch's backward starts, no parameter the
                # optimizer updates holds anything from an earlier batch
                orig_bw = l.backward

                def bw(*a_, **k_):
                    log.append(("zero",) if all(is_clear(p_) for p_ in opt_params) else ("dirty",))
                    return orig_bw(*a_, **k_)
                l.backward = bw
            return l
        orig_step = opt.step

        def step():
            log.append(("step", all_training(model), common.grad_enabled(), [snapshot(p.data) for p in params]))
            return orig_step()

        opt.step = step
        evaluator = None
        if mode is not None:
            if sp.get("metric_callbacks"):
                # user metrics returned by the evaluator's callbacks are metrics like any other: one entry per epoch,
                # val_ prefix for validation
                def user_metric(y_true, y_pred):
                    return [("error_rate", np.float64((y_true != y_pred).sum() / len(y_true)))]
                evaluator = Evaluator(mode=mode, epoch_callback=user_metric, step_callback=user_metric,
                                      **({"accuracy": False} if sp.get("no_accuracy") else {}))
            else:
                evaluator = Evaluator(mode=mode)
            orig_ev = evaluator.step

            def ev_step(labels, outputs, prefix=None):
                r = orig_ev(labels, outputs, prefix=prefix)
                log.append(("metric", prefix, labels, outputs, r))
                return r
            evaluator.step = ev_step
            if sp.get("pre_step"):
                # the evaluator was used by hand before fit() (a probe on one sample, never followed by compute()): the
                # metrics of the first epoch are still those of the first epoch's samples only
                if mode == "binary":
                    lab0, out0 = np.array([1.0], dtype=np.float32), np.array([0.0], dtype=np.float32)
                elif mode == "multi-class":
                    lab0, out0 = np.array([1.0], dtype=np.float32), np.array([[1.0, 0.0]], dtype=np.float32)
                else:
                    lab0, out0 = np.array([[0.0, 1.0]], dtype=np.float32), np.array([[1.0, 0.0]], dtype=np.float32)
                orig_ev(Tn(env.const(lab0, np.float32) if env.sym else lab0), Tn(env.const(out0, np.float32) if env.sym else out0))
        trainer = Trainer(model, synapgrad)
        trainer.compile(crit, opt, evaluator)
        entry_mode = bool(sp["grad_on_entry"])
        ctx = None
        if not entry_mode:
            # fit() called under no_grad makes no sense for training; the clause checked here is only that the mode found
            # on entry is the mode left behind, so the off-case is exercised with Trainer.test
            pass
        if sp.get("stale_grads"):
            # gradients left on the parameters by something that ran before fit() (a probe backward, an earlier loop):
            # every update must still be computed from its own batch only
            for k, p_ in enumerate(params):
                set_grad(p_, snapshot(env.arr("stale%d" % k, p_.shape)))
        common.reset_modes()
        before_flags = (common.grad_enabled(),)
        cb_train = cb_val = None
        if sp.get("callbacks"):
            # per-epoch callbacks that leave the model in the *wrong* mode (e.g. a prediction snapshot through
            # trainer.test in on_train_epoch): the updates must still run in training mode, validation in eval mode
            def cb_train(m, loader):
                m.eval()

            def cb_val(m, loader):
                m.train()
        history = trainer.fit(train_loader, sp["epochs"], validation_loader=val_loader,
                              on_train_epoch=cb_train, on_validation_epoch=cb_val)
        after_flags = (common.grad_enabled(),)
        out.fact("fit leaves the global gradient mode as it found it", before_flags == after_flags, "%s -> %s" % (before_flags, after_flags))

        # ---- call log: exactly epochs x len(train_loader) steps, each preceded by a zero_grad since the previous step
        steps = [e for e in log if e[0] == "step"]
        out.fact("exactly epochs x len(train_loader) parameter updates", len(steps) == sp["epochs"] * nb,
                 "%d updates for %d epochs x %d batches" % (len(steps), sp["epochs"], nb))
        ok_seq = True
        zeroed = False
        for e in log:
            if e[0] == "zero":
                zeroed = True
            elif e[0] == "step":
                ok_seq = ok_seq and zeroed
                zeroed = False
        out.fact("every update is preceded by clearing the gradients", ok_seq)
        out.fact("every update is computed with all modules in training mode and gradient tracking on",
                 all(all(e[1]) and e[2] for e in steps))
        # ---- losses: which forward belongs to training / validation is read off the order of events
        losses = [e for e in log if e[0] == "loss"]
        per_epoch = nb + nvb
        out.fact("one loss evaluation per batch", len(losses) == sp["epochs"] * per_epoch, "%d" % len(losses))
        train_losses, val_losses = [], []
        for k, e in enumerate(losses):
            (train_losses if (k % per_epoch) < nb else val_losses).append(e)
        out.fact("validation runs with every module in eval mode and gradient tracking disabled",
                 all((not any(e[2])) and (not e[3]) for e in val_losses))
        out.fact("validation losses carry no autograd history", all(not e[1].requires_grad for e in val_losses))
        # ---- history
        # (Evaluator(accuracy=False): the built-in metric is switched off, only the callbacks' metrics remain)
        metric_names = (["accuracy"] if mode and not sp.get("no_accuracy") else []) + (["error_rate"] if mode and sp.get("metric_callbacks") else [])
        keys = {"loss"} | set(metric_names)
        if sp["val"]:
            keys |= {"val_loss"} | {"val_" + m_ for m_ in metric_names}
        if sp["epochs"] == 0:
            out.fact("no history for zero epochs", history == {})
        else:
            out.fact("history has one entry per epoch for the loss and every metric", set(history) == keys and
                     all(len(v) == sp["epochs"] for v in history.values()),
                     "keys %s lengths %s" % (sorted(history), [len(v) for v in history.values()]))
            for ep in range(sp["epochs"]):
                tl = train_losses[ep * nb:(ep + 1) * nb]
                if "loss" in history and len(history["loss"]) > ep and len(tl) == nb:
                    mean = sum((sc.lift(E.flat_nodes(e[1].data)[0][0]) if env.sym else float(e[1].data) for e in tl[1:]),
                               sc.lift(E.flat_nodes(tl[0][1].data)[0][0]) if env.sym else float(tl[0][1].data)) if False else None
                    vals = [E.flat_nodes(e[1].data)[0][0] if env.sym else float(np.asarray(e[1].data)) for e in tl]
                    if env.sym:
                        tot = S(vals[0])
                        for v in vals[1:]:
                            tot = tot + S(v)
                        exp = tot / nb
                    else:
                        exp = sum(vals) / nb
                    out.pair("epoch %d loss is the mean of its batch losses" % ep, [history["loss"][ep]], [exp])
                if sp["val"] and "val_loss" in history and len(history["val_loss"]) > ep:
                    vl = val_losses[ep * nvb:(ep + 1) * nvb]
                    vals = [E.flat_nodes(e[1].data)[0][0] if env.sym else float(np.asarray(e[1].data)) for e in vl]
                    if vals:
                        tot = (S(vals[0]) if env.sym else vals[0])
                        for v in vals[1:]:
                            tot = tot + (S(v) if env.sym else v)
                        out.pair("epoch %d val_loss is the mean of its batch losses" % ep, [history["val_loss"][ep]], [tot / len(vals)])
        # ---- metrics: accuracy = fraction of correct predictions under the selected label mode
        tallies = []
        for e in log:
            if e[0] != "metric":
                continue
            _, prefix, labels, outputs, r = e
            o = outputs.data
            lab = labels.data
            n = o.shape[0]
            if mode == "binary":
                pred = [1 if bool(o[i] > 0.5) else 0 for i in range(n)]
                true = [int(float(lab[i]) if not isinstance(lab[i], S) else float(lab[i])) for i in range(n)]
            else:
                pred = [ar._pick([o[i, 0], o[i, 1]], True) if env.sym else int(np.argmax(o[i])) for i in range(n)]
                if mode == "categorical":
                    true = [int(np.argmax([float(lab[i, 0]), float(lab[i, 1])])) for i in range(n)]
                else:
                    true = [int(lab[i]) for i in range(n)]
            acc = sum(1 for a, b in zip(pred, true) if a == b) / n
            tallies.append((prefix, n, sum(1 for a, b in zip(pred, true) if a == b)))
            name = ("%s_accuracy" % prefix) if prefix else "accuracy"
            if sp.get("metric_callbacks"):
                ename = ("%s_error_rate" % prefix) if prefix else "error_rate"
                eg = dict(r).get(ename)
                out.fact("the step callback's metric is reported under its name%s" % (" with the val_ prefix" if prefix else ""),
                         eg is not None and abs(float(eg) - (1 - acc)) < 1e-9, "metrics %s" % ([k_ for k_, _ in r],))
            got = dict(r).get(name)
            if sp.get("no_accuracy"):
                out.fact("no accuracy metric is reported when it is switched off", got is None, "metrics %s" % ([k_ for k_, _ in r],))
                continue
            out.fact("step accuracy is the fraction of correct predictions (%s)" % mode, got is not None and abs(float(got) - acc) < 1e-9,
                     "reported %s, fraction of matches %s" % (got, acc))
        # ---- the per-epoch metric values in the history: the fraction correct over all samples the epoch saw (training and
        #      validation kept apart, nothing carried over from an earlier epoch)
        if mode is not None and not sp.get("no_accuracy") and sp["epochs"] > 0 and len(tallies) == sp["epochs"] * (nb + nvb):
            per = nb + nvb
            for ep in range(sp["epochs"]):
                chunk = tallies[ep * per:(ep + 1) * per]
                for pref, part in ((None, chunk[:nb]), ("val", chunk[nb:])):
                    if not part:
                        continue
                    want = sum(m_ for _, _, m_ in part) / sum(n_ for _, n_, _ in part)
                    key = "val_accuracy" if pref else "accuracy"
                    got = history.get(key, [None] * sp["epochs"])
                    got = got[ep] if len(got) > ep else None
                    out.fact("history[%s][%d] is the fraction correct over the epoch's samples" % (key, ep),
                             got is not None and abs(float(got) - want) < 1e-9, "history %s, fraction %s" % (got, want))
        # ---- trajectory: the parameters after fit equal those of a hand-rolled loop (zero_grad, backward, step per batch,
        #      training mode) on an identical model; validation in between must not have changed anything
        ropt = optim.SGD(list(ref_model.parameters()) + ([ref_off] if ref_off is not None else []), lr=lr)
        for ep in range(sp["epochs"]):
            ref_model.train()
            for i in range(nb):
                Xb, yb = Tn(Xt[i * bs:(i + 1) * bs]), Tn(yt[i * bs:(i + 1) * bs])
                o = ref_model(Xb).squeeze(dim=1)
                l = crit_real(o if ref_off is None else o + ref_off, yb)
                ropt.zero_grad()
                l.backward()
                ropt.step()
        for k, (p, q) in enumerate(zip(params, ref_params)):
            out.pair("parameter %d after fit = hand-rolled loop" % k, snapshot(p.data), snapshot(q.data))
        if off is not None:
            out.pair("the loss module's parameter after fit = hand-rolled loop", snapshot(off.data), snapshot(ref_off.data))
        for k, (b1, b2) in enumerate(zip(bns, ref_bns)):
            out.pair("running_mean %d after fit = hand-rolled loop (validation changed no statistic)" % k, snapshot(b1.running_mean.data), snapshot(b2.running_mean.data))
            out.pair("running_var %d after fit = hand-rolled loop (validation changed no statistic)" % k, snapshot(b1.running_var.data), snapshot(b2.running_var.data))
            out.fact("num_batches_tracked %d counts training batches only" % k, b1.num_batches_tracked == sp["epochs"] * nb,
                     "%s" % b1.num_batches_tracked)
        # ---- Trainer.test: eval mode, no gradient tracking, mode restored, nothing changed
        if sp.get("test"):
            snap = [snapshot(p.data) for p in params] + [snapshot(b.running_mean.data) for b in bns] + [snapshot(b.running_var.data) for b in bns]
            import contextlib
            import io
            for entry in ((True, False) if sp["grad_on_entry"] else (False,)):
                seen = []
                orig_fw = model.forward

                def fw(x, _o=orig_fw):
                    seen.append((all_training(model), common.grad_enabled()))
                    return _o(x)
                model.forward = fw
                # entry mode off = the caller's own no_grad block around test()
                with (contextlib.nullcontext() if entry else synapgrad.no_grad()):
                    try:
                        with contextlib.redirect_stdout(io.StringIO()):
                            y_pred, y_true = trainer.test(val_loader if val_loader is not None else train_loader)
                    finally:
                        model.forward = orig_fw
                    after = common.grad_enabled()
                # what test() returns: the labels of every batch in loader order, and the model's eval-mode predictions for them
                tl = val_loader if val_loader is not None else train_loader
                Xs, ys = (Xv, yv) if val_loader is not None else (Xt, yt)
                nbt_ = len(ys) // bs
                model.eval()
                with synapgrad.no_grad():
                    want_pred = [model(Tn(Xs[i * bs:(i + 1) * bs])).squeeze(dim=1) for i in range(nbt_)]
                model.train()
                flat_true = [ys[i] for i in range(nbt_ * bs)]
                out.fact("test returns one label and one prediction per sample", len(y_true) == nbt_ * bs and len(y_pred) == nbt_ * bs,
                         "%d labels, %d predictions for %d samples" % (len(y_true), len(y_pred), nbt_ * bs))
                if len(y_true) == nbt_ * bs and len(y_pred) == nbt_ * bs:
                    def flat(v):
                        return [x for x in (E.flat_nodes(v)[0] if env.sym else np.asarray(v, dtype=np.float64).reshape(-1))]
                    got_t, want_t = flat(y_true), flat(ys[:nbt_ * bs])
                    out.pair("test returns the labels in loader order", [S(x) for x in got_t] if env.sym else got_t,
                             [S(x) for x in want_t] if env.sym else want_t)
                    got_p = flat(y_pred)
                    want_p = [x for w_ in want_pred for x in flat(w_.data)]
                    if len(got_p) == len(want_p):
                        out.pair("test returns the eval-mode predictions in loader order", [S(x) for x in got_p] if env.sym else got_p,
                                 [S(x) for x in want_p] if env.sym else want_p)
                    else:
                        out.fact("test returns one prediction row per sample", False, "%d values for %d expected" % (len(got_p), len(want_p)))
                out.fact("test runs in eval mode with gradient tracking disabled", bool(seen) and all((not any(a)) and (not g) for a, g in seen))
                out.fact("test leaves the global gradient mode as it found it (entry mode %s)" % entry, after == entry,
                         "mode after test: %s" % after)
            now = [p.data for p in params] + [b.running_mean.data for b in bns] + [b.running_var.data for b in bns]
            for k, (a, b) in enumerate(zip(now, snap)):
                out.pair("test changed nothing (%d)" % k, snapshot(a), b)
        if sp.get("fit_twice"):
            # the same compiled trainer fitted again (more epochs, this time without a validation loader): the history
            # returned by *this* call has one entry per epoch of this call, for the metrics of this call
            n_before = len([e for e in log if e[0] == "step"])
            first_lengths = {k_: len(v_) for k_, v_ in history.items()}
            h2 = trainer.fit(train_loader, 2, validation_loader=None)
            keys2 = {"loss"} | set(metric_names)
            out.fact("second fit: history has one entry per epoch of that call for the loss and every metric", set(h2) == keys2 and
                     all(len(v) == 2 for v in h2.values()), "keys %s lengths %s (first fit: %s)" % (sorted(h2), [len(v) for v in h2.values()], first_lengths))
            out.fact("second fit: exactly epochs x len(train_loader) further updates",
                     len([e for e in log if e[0] == "step"]) - n_before == 2 * nb)
        return out


def enumerate_specs(tier):
    specs = []
    for epochs in ((0, 1, 2) if tier == "quick" else (0, 1, 2, 3)):
        for nb in ((1, 2) if tier == "quick" else (1, 2, 3)):
            for val in (False, True):
                if tier == "quick" and epochs == 2 and nb == 2 and val:
                    continue
                specs.append({"epochs": epochs, "batches": nb, "val": val, "evaluator": None, "grad_on_entry": True,
                              "test": epochs == 1})
    for nb, val in ((1, False), (2, True)):
        specs.append({"epochs": 1 if tier == "quick" else 2, "batches": nb, "val": val, "evaluator": None, "grad_on_entry": True,
                      "test": False, "callbacks": True})
        specs.append({"epochs": 1, "batches": nb, "val": val, "evaluator": None, "grad_on_entry": True, "test": False,
                      "stale_grads": True})
        specs.append({"epochs": 1, "batches": nb, "val": val, "evaluator": None, "grad_on_entry": True, "test": False,
                      "fit_twice": True})
    # the optimizer also owns a parameter of the loss module (not registered in the model)
    specs.append({"epochs": 1, "batches": 2, "val": False, "evaluator": None, "grad_on_entry": True, "test": False, "loss_param": True})
    specs.append({"epochs": 2, "batches": 1, "val": True, "evaluator": None, "grad_on_entry": True, "test": False, "loss_param": True})
    for mode in ("binary", "multi-class", "categorical"):
        for val in (False, True):
            specs.append({"epochs": 1, "batches": 1, "val": val, "evaluator": mode, "grad_on_entry": True, "test": False})
        specs.append({"epochs": 2, "batches": 1, "val": mode == "binary", "evaluator": mode, "grad_on_entry": True, "test": False,
                      "pre_step": True})
        if tier != "quick":
            specs.append({"epochs": 2, "batches": 1, "val": True, "evaluator": mode, "grad_on_entry": True, "test": True})
    for mode in ("binary", "multi-class", "categorical"):
        # batches of one sample (the batch dimension must survive every squeeze), two training and two validation batches
        specs.append({"epochs": 1, "batches": 2, "val": True, "evaluator": mode, "grad_on_entry": True, "test": False, "bs": 1})
        specs.append({"epochs": 2 if tier != "quick" else 1, "batches": 2, "val": True, "evaluator": mode, "grad_on_entry": True,
                      "test": False, "val_batches": 2})
    specs.append({"epochs": 1, "batches": 1, "val": True, "evaluator": "binary", "grad_on_entry": True, "test": False,
                  "metric_callbacks": True, "no_accuracy": True})
    for mode, val in (("binary", True), ("multi-class", False)) + ((("categorical", True),) if tier != "quick" else ()):
        specs.append({"epochs": 1 if val else 2, "batches": 1, "val": val, "evaluator": mode, "grad_on_entry": True, "test": False,
                      "metric_callbacks": True})
    return specs


def build(spec):
    return Case(spec)


def main(tier, seed):
    t0 = time.time()
    specs = enumerate_specs(tier)
    results = runner.run_pool(__name__, specs, tier, seed, limit=300 if tier == "quick" else 1800)
    return runner.finish(
        PROP, tier, seed, results, t0,
        bounds={"epochs": "0-2", "train batches": "1-2 of 2 samples", "validation": "absent / one batch",
                "evaluator": [None, "binary", "multi-class", "categorical", "with user metrics from epoch/step callbacks"],
                "model": "Sequential(Linear(2,1|2), BatchNorm1d) with symbolic parameters; SGD lr=0.1; MSELoss / CrossEntropyLoss"},
        assumptions=["floats are reals", "the progress bar (pkbar) is stubbed", "optimizer.step/zero_grad, the loss function, "
                     "Evaluator.step and model.forward are wrapped from outside to log calls, module modes and the gradient mode",
                     "which loss evaluation belongs to training or validation is read off the order of events"],
        stubs=["pkbar.Kbar", "numpy creators inside synapgrad return constant symbolic arrays"],
        rule="one configuration = epochs x batches x validation loader x evaluator mode; data and parameters symbolic; the final "
             "parameters and running statistics must be solver-equal to a hand-rolled loop on an identical model")
