"""C15 - weight initialisers fill tensors with the documented distribution, in place.
RNG stub: uniform(a,b) = a + (b-a)*u with fresh u in [0,1); normal(m,s) = m + s*z with fresh z."""
from __future__ import annotations

import math
import time

import numpy as np

from ..harness import T, sig_of
from ..symnum import engine as E
from ..symnum import array as ar
from ..symnum.scalar import S
from .. import runner

PROP = "C15"
SHAPES_Q = [(2, 3), (3, 2, 2), (2, 1, 2, 2)]
SHAPES_T = SHAPES_Q + [(1, 1), (3, 1), (2, 2, 3), (1, 2, 1, 3)]
GAINS = [1.0, 5.0 / 3, math.sqrt(2.0), 0.75, 2.5]
SLOPES = [0, 0.01, 0.2, 1, -0.5]


def fans(shape):
    rf = 1
    for e in shape[2:]:
        rf *= e
    return shape[1] * rf, shape[0] * rf


def torch_gain(nonlinearity, param=None):
    if nonlinearity in ("linear", "conv1d", "conv2d", "sigmoid"):
        return 1.0
    if nonlinearity == "tanh":
        return 5.0 / 3
    if nonlinearity == "relu":
        return math.sqrt(2.0)
    if nonlinearity == "leaky_relu":
        ns = 0.01 if param is None else param
        return math.sqrt(2.0 / (1 + ns ** 2))
    if nonlinearity == "selu":
        return 3.0 / 4
    raise ValueError(nonlinearity)


def draw(env, kind, k, shape):
    name = "rng%d_%s" % (k, kind)
    if env.sym:
        if kind == "u":
            return ar.sym_array(name, shape, np.float64, lo=0, hi=1, hi_strict=True, kind="rng")
        return ar.sym_array(name, shape, np.float64, lo=-4, hi=4, kind="rng")
    return env.feed(name, shape)


def close(a, b, rel=1e-12):
    return abs(a - b) <= rel * max(abs(a), abs(b), 1e-300)


class Case:
    prop = PROP

    def __init__(self, spec):
        self.spec = spec
        self.sig = sig_of(spec["fn"], {k: v for k, v in spec.items() if k != "fn"}, None)
        self.tol = 1e-12 if spec.get("dtype") == "float64" and "const" in spec else None

    def run(self, env):
        from synapgrad.nn import init
        import synapgrad
        from synapgrad import nn
        sp = self.spec
        out = E.Outcome()
        fn = sp["fn"]
        if fn in ("Linear", "Conv1d", "Conv2d"):
            return self.run_layer(env, out)
        if fn == "calculate_gain":
            # the documented table, including the default slope of leaky_relu and the names it must refuse
            table = [("linear", None, 1.0), ("conv1d", None, 1.0), ("conv2d", None, 1.0), ("sigmoid", None, 1.0), ("tanh", None, 5.0 / 3),
                     ("relu", None, math.sqrt(2.0)), ("leaky_relu", None, math.sqrt(2.0 / (1 + 0.01 ** 2))),
                     ("leaky_relu", 0.2, math.sqrt(2.0 / (1 + 0.2 ** 2))), ("leaky_relu", 1, 1.0), ("leaky_relu", 0, math.sqrt(2.0)),
                     ("selu", None, 0.75),
                     # the slope argument belongs to leaky_relu alone: every other nonlinearity ignores it (PyTorch)
                     ("relu", 0.5, math.sqrt(2.0)), ("tanh", 0.2, 5.0 / 3), ("linear", 3, 1.0), ("selu", 0.2, 0.75)]
            for nl, prm, want in table:
                got = init.calculate_gain(nl, prm) if prm is not None else init.calculate_gain(nl)
                out.fact("calculate_gain(%s, %s) = %.6g" % (nl, prm, want), abs(float(got) - want) <= 1e-12 * max(1.0, want), "got %r" % (got,))
            for bad in (("swish", None), ("leaky_relu", True), ("leaky_relu", "0.1")):
                try:
                    init.calculate_gain(*bad)
                    out.fact("calculate_gain%r is refused" % (bad,), False)
                except ValueError:
                    out.fact("calculate_gain%r is refused" % (bad,), True)
            return out
        shape = tuple(sp["shape"])
        dt = np.dtype(sp.get("dtype", "float32"))
        req = sp.get("req", True)
        base = None
        if sp.get("view"):
            # the given tensor is a row of a larger one (parameters of several units kept in one block, one unit re-initialised):
            # "in place" means the values are written into the storage the tensor has, so the block sees them
            base = T()(env.const(np.full((2,) + shape, 7.0), dt), requires_grad=False)
            t = base[1]
            shared = bool(np.shares_memory(np.asarray(base.data), np.asarray(t.data)))
        elif sp.get("layout"):
            # the given tensor's data is a non-contiguous view (a transposed weight, a column block): it is filled all the same
            from ..harness import relayout
            t = T()(relayout(env.const(np.full(shape, 7.0), dt), sp["layout"]), requires_grad=req)
        else:
            t = T()(env.const(np.full(shape, 7.0), dt), requires_grad=req)     # (not 0: zeros_ must be seen to write)
        before = (tuple(t.shape), str(t.dtype), t.requires_grad)
        kind = None
        # arguments handed over as NumPy float64 scalars (np.sqrt(2), np.float64(0.02)) instead of Python floats: NumPy promotes
        # float32 arrays combined with them to float64, Python floats never do
        npargs = bool(sp.get("npargs"))
        as_arg = (lambda v: (S(v.n, np.dtype("float64")) if isinstance(v, S) else np.float64(v))) if npargs else (lambda v: v)
        if sp.get("defaults"):
            # every optional argument left to the callee: U(0,1), N(0,1), gain 1, kaiming (a=0, fan_in, leaky_relu)
            fi, fo = fans(shape) if len(shape) >= 2 else (None, None)
            r = getattr(init, fn)(t)
            if fn == "uniform_":
                kind, lo_doc, hi_doc = "u", 0.0, 1.0
            elif fn == "normal_":
                kind, mean_doc, std_doc = "z", 0.0, 1.0
            elif fn == "xavier_uniform_":
                b = math.sqrt(6.0 / (fi + fo)); kind, lo_doc, hi_doc = "u", -b, b
            elif fn == "xavier_normal_":
                kind, mean_doc, std_doc = "z", 0.0, math.sqrt(2.0 / (fi + fo))
            elif fn == "kaiming_uniform_":
                b = math.sqrt(2.0) * math.sqrt(3.0 / fi); kind, lo_doc, hi_doc = "u", -b, b
            else:
                kind, mean_doc, std_doc = "z", 0.0, math.sqrt(2.0) / math.sqrt(fi)
        elif fn == "uniform_":
            a = env.scalar("a", lo=-3, hi=0, kind="data")
            w = env.scalar("w", lo=0.1, hi=3, kind="data")
            r = init.uniform_(t, as_arg(a), as_arg(a + w))
            kind, lo_doc, hi_doc = "u", a, a + w
        elif fn == "normal_":
            mean = env.scalar("mean", lo=-3, hi=3, kind="data")
            std = env.scalar("std", lo=0.1, hi=3, kind="data")
            r = init.normal_(t, as_arg(mean), as_arg(std))
            kind, mean_doc, std_doc = "z", mean, std
        elif fn == "constant_" and "const" in sp:
            # a concrete Python number that no float type represents exactly: the tensor holds it rounded to its *own* dtype
            # (double precision for a float64 tensor - not routed through float32)
            r = init.constant_(t, sp["const"])
            out.pair("every element is the value rounded to the tensor's dtype", t.data, _full(shape, float(dt.type(sp["const"])), env))
        elif fn == "constant_":
            val = env.scalar("val", lo=-3, hi=3, kind="data")
            r = init.constant_(t, as_arg(val))
            out.pair("every element is val", t.data, _full(shape, val, env))
        elif fn == "ones_":
            r = init.ones_(t)
            out.pair("every element is 1", t.data, _full(shape, 1.0, env))
        elif fn == "zeros_":
            r = init.zeros_(t)
            out.pair("every element is 0", t.data, _full(shape, 0.0, env))
        elif fn in ("xavier_uniform_", "xavier_normal_"):
            gain = sp["gain"]
            fi, fo = fans(shape)
            r = getattr(init, fn)(t, as_arg(gain))
            if fn == "xavier_uniform_":
                b = gain * math.sqrt(6.0 / (fi + fo))
                kind, lo_doc, hi_doc = "u", -b, b
            else:
                kind, mean_doc, std_doc = "z", 0.0, gain * math.sqrt(2.0 / (fi + fo))
        elif fn in ("kaiming_uniform_", "kaiming_normal_"):
            fi, fo = fans(shape)
            fan = fi if sp["mode"] == "fan_in" else fo
            gain = torch_gain(sp["nonlinearity"], sp["a"])
            kw = dict(a=as_arg(sp["a"]), mode=sp["mode"], nonlinearity=sp["nonlinearity"])
            r = getattr(init, fn)(t, **kw)
            if fn == "kaiming_uniform_":
                b = gain * math.sqrt(3.0 / fan)
                kind, lo_doc, hi_doc = "u", -b, b
            else:
                kind, mean_doc, std_doc = "z", 0.0, gain / math.sqrt(fan)
        else:
            raise ValueError(fn)
        out.notes["obs:data"] = t.data
        out.fact("returns the very tensor it was given", r is t)
        if base is not None and shared:
            out.pair("a tensor sharing the given tensor's storage sees the new values (filled in place)", base.data[1], t.data)
            out.pair("the rest of the shared storage is untouched", base.data[0], _full(shape, 7.0, env))
        out.fact("shape, dtype and requires_grad unchanged", (tuple(t.shape), str(t.dtype), t.requires_grad) == before,
                 "before %s after %s" % (before, (tuple(t.shape), str(t.dtype), t.requires_grad)))
        if kind == "u":
            u = draw(env, "u", 1, shape)
            slack = 1e-9 * (abs(_f(hi_doc, env)) + abs(_f(lo_doc, env)) + 1e-30)
            if isinstance(lo_doc, (S, float)) and not isinstance(lo_doc, float) or (not env.sym and sp['fn'] == 'uniform_' and not sp.get('defaults')):
                out.pair("element i = lo_doc + (hi_doc - lo_doc) * u_i", t.data, lo_doc + (hi_doc - lo_doc) * u)
            else:   # documented bound is a float formula: equal up to the last ulp of the constant
                out.claim("element i <= lo_doc + (hi_doc - lo_doc) * u_i (+1e-9)", t.data, "<=", lo_doc + (hi_doc - lo_doc) * u + slack)
                out.claim("element i >= lo_doc + (hi_doc - lo_doc) * u_i (-1e-9)", t.data, ">=", lo_doc + (hi_doc - lo_doc) * u - slack)
            out.claim("element >= documented lower bound", t.data, ">=", lo_doc - slack)
            out.claim("element < documented upper bound", t.data, "<", hi_doc + slack)
        elif kind == "z":
            z = draw(env, "z", 1, shape)
            if isinstance(std_doc, S) or (not env.sym and sp['fn'] == 'normal_' and not sp.get('defaults')):
                out.pair("element i = mean_doc + std_doc * z_i", t.data, mean_doc + std_doc * z)
            else:
                tol = 4e-9 * abs(std_doc)
                out.claim("element i <= mean_doc + std_doc * z_i (+1e-9 rel)", t.data, "<=", mean_doc + std_doc * z + tol)
                out.claim("element i >= mean_doc + std_doc * z_i (-1e-9 rel)", t.data, ">=", mean_doc + std_doc * z - tol)
        return out

    def run_layer(self, env, out):
        from synapgrad import nn
        sp = self.spec
        fn = sp["fn"]
        if fn == "Linear":
            m = nn.Linear(sp["in"], sp["out"], bias=sp["bias"])
            fan_in = sp["in"]
        elif fn == "Conv1d":
            m = nn.Conv1d(sp["in"], sp["out"], sp["k"], bias=sp["bias"])
            fan_in = sp["in"] * sp["k"]
        else:
            m = nn.Conv2d(sp["in"], sp["out"], tuple(sp["k"]), bias=sp["bias"])
            fan_in = sp["in"] * sp["k"][0] * sp["k"][1]
        b = 1.0 / math.sqrt(fan_in)
        ws = tuple(m.weight.shape)
        # Parameter construction draws once too (synapgrad.empty is not random): draws are numbered in call order
        u = draw(env, "u", 1, ws)
        out.pair("weight_i = -1/sqrt(fan_in) + 2/sqrt(fan_in) * u_i", m.weight.data, -b + (2 * b) * u)
        out.claim("weight >= -1/sqrt(fan_in)", m.weight.data, ">=", -b * (1 + 1e-9))
        out.claim("weight < 1/sqrt(fan_in)", m.weight.data, "<", b * (1 + 1e-9))
        out.fact("weight requires grad and is float32", m.weight.requires_grad and str(m.weight.dtype) == "float32")
        if sp["bias"]:
            ub = draw(env, "u", 2, tuple(m.bias.shape))
            out.pair("bias_i = -1/sqrt(fan_in) + 2/sqrt(fan_in) * u_i", m.bias.data, -b + (2 * b) * ub)
            out.claim("bias >= -1/sqrt(fan_in)", m.bias.data, ">=", -b * (1 + 1e-9))
            out.claim("bias < 1/sqrt(fan_in)", m.bias.data, "<", b * (1 + 1e-9))
        else:
            out.fact("no bias", m.bias is None)
        return out


def _f(v, env):
    if isinstance(v, S):
        from ..symnum import scalar as sc
        return sc.evalf(v.n)
    return float(v)


def _full(shape, v, env):
    o = np.empty(shape, dtype=object if env.sym else np.float64)
    for idx in np.ndindex(*shape):
        o[idx] = v
    return o


def enumerate_specs(tier):
    specs = []
    shapes = SHAPES_Q if tier == "quick" else SHAPES_T
    for fn in ("uniform_", "normal_", "constant_", "ones_", "zeros_"):
        for s in [(3,)] + shapes:
            for dt in ("float32", "float64"):
                specs.append({"fn": fn, "shape": list(s), "dtype": dt, "req": dt == "float32"})
    for fn in ("uniform_", "normal_", "xavier_uniform_", "xavier_normal_", "kaiming_uniform_", "kaiming_normal_"):
        specs.append({"fn": fn, "shape": [2, 3], "defaults": True})
        specs.append({"fn": fn, "shape": [2, 1, 2], "defaults": True})
    specs.append({"fn": "calculate_gain"})
    for fn in ("uniform_", "normal_", "constant_", "ones_", "zeros_"):
        specs.append({"fn": fn, "shape": [3], "dtype": "float32", "req": False, "view": True})
    for fn in ("xavier_uniform_", "kaiming_normal_"):
        specs.append({"fn": fn, "shape": [2, 2], "defaults": True, "view": True})
    for k, fn in enumerate(("uniform_", "normal_", "constant_", "ones_", "zeros_")):
        specs.append({"fn": fn, "shape": [2, 3], "dtype": "float32", "req": True, "layout": "TS"[k % 2]})
    for k, fn in enumerate(("xavier_uniform_", "xavier_normal_", "kaiming_uniform_", "kaiming_normal_")):
        specs.append({"fn": fn, "shape": [2, 3], "defaults": True, "layout": "ST"[k % 2]})
    for dt in ("float32", "float64"):
        for c in (0.1, 1.0 / 3):
            specs.append({"fn": "constant_", "shape": [2], "dtype": dt, "req": dt == "float32", "const": c})
    for fn in ("uniform_", "normal_", "constant_"):
        specs.append({"fn": fn, "shape": [2, 2], "dtype": "float32", "req": True, "npargs": True})
    for fn in ("xavier_uniform_", "xavier_normal_"):
        specs.append({"fn": fn, "shape": [2, 3], "gain": GAINS[-1], "npargs": True})
    for fn in ("kaiming_uniform_", "kaiming_normal_"):
        specs.append({"fn": fn, "shape": [2, 3], "mode": "fan_in", "nonlinearity": "leaky_relu", "a": SLOPES[-1], "npargs": True})
    for s in shapes:
        for g in GAINS:
            for fn in ("xavier_uniform_", "xavier_normal_"):
                specs.append({"fn": fn, "shape": list(s), "gain": g})
        for mode in ("fan_in", "fan_out"):
            for nl, a in [("leaky_relu", a) for a in SLOPES] + [("relu", 0), ("tanh", 0), ("linear", 0), ("sigmoid", 0),
                                                                 ("selu", 0), ("conv2d", 0), ("relu", SLOPES[-1]), ("tanh", SLOPES[1])]:
                for fn in ("kaiming_uniform_", "kaiming_normal_"):
                    specs.append({"fn": fn, "shape": list(s), "mode": mode, "nonlinearity": nl, "a": a})
    for (i, o) in [(3, 2), (1, 4)]:
        for bias in (True, False):
            specs.append({"fn": "Linear", "in": i, "out": o, "bias": bias})
    for (i, o, k) in [(2, 2, 3), (1, 3, 1)]:
        specs.append({"fn": "Conv1d", "in": i, "out": o, "k": k, "bias": True})
    for (i, o, k) in [(2, 1, (2, 3)), (1, 2, (1, 1))]:
        specs.append({"fn": "Conv2d", "in": i, "out": o, "k": list(k), "bias": True})
    return specs


def build(spec):
    return Case(spec)


def main(tier, seed):
    t0 = time.time()
    specs = enumerate_specs(tier)
    results = runner.run_pool(__name__, specs, tier, seed)
    return runner.finish(
        PROP, tier, seed, results, t0,
        bounds={"shapes": "rank 1-4, extents <= 3", "gains": GAINS, "negative slopes": SLOPES,
                "modes": ["fan_in", "fan_out"]},
        assumptions=["np.random.uniform(a,b) = a + (b-a)*u, u in [0,1); np.random.normal(m,s) = m + s*z (generator contract: "
                     "that the generator samples the distribution it is asked for is NumPy's)",
                     "documented bounds/std are computed with math.sqrt exactly as the PyTorch formulas state them; gains, "
                     "slopes and fans are concrete (they pass through math.sqrt, a C boundary)",
                     "bounds carry a 1e-9 relative slack for the last-ulp difference of float constants"],
        stubs=["np.random.uniform / normal inside synapgrad -> affine images of fresh symbolic draws"],
        rule="one configuration = filler x shape x dtype / gain / mode / nonlinearity / slope; draws (and the plain fillers' "
             "arguments) symbolic: the tensor's terms must be the documented affine image of the draws for all draws")
