"""C11 - forward and backward never modify operands, targets, bystanders or the caller's gradient."""
from __future__ import annotations

import time

import numpy as np

from .. import opcat_tensor, opcat_nn, common
from ..harness import OpCase, T, snapshot, gradof, set_grad
from ..symnum import engine as E
from ..symnum import array as ar
from .. import runner

PROP = "C11"
CATS = {"tensor": opcat_tensor.REG, "nn": opcat_nn.REG}


class Scenario:
    """hand-written aliasing scenarios (operands that are views of one another, a tensor reused by several
    ops, a seed gradient reused across backward calls, a leaf used as root, clone/detach independence)"""

    def __init__(self, name):
        self.name = name
        self.sig = "scenario:" + name
        self.prop = PROP

    def run(self, env):
        return getattr(self, "s_" + self.name)(env)

    def s_leaf_root_then_accumulate(self, env):
        out = E.Outcome()
        Tn = T()
        x = Tn(env.arr("x", (3,)), requires_grad=True)
        g = env.arr("g", (3,))
        G = Tn(g)
        snap = snapshot(g)
        x.backward(G)                 # x is leaf and root
        y = x * 2.0
        g2 = env.arr("h", (3,))
        y.backward(Tn(g2))            # accumulates into x.grad
        out.pair("caller's seed gradient unchanged", snapshot(G.data), snap)
        out.fact("x.grad does not share memory with the seed", not np.shares_memory(ar.unwrap(gradof(x)), ar.unwrap(g)))
        return out

    def s_seed_reused_twice(self, env):
        out = E.Outcome()
        Tn = T()
        a = Tn(env.arr("a", (2,)), requires_grad=True)
        b = Tn(env.arr("b", (2,)), requires_grad=True)
        g = env.arr("g", (2,))
        G = Tn(g)
        snap = snapshot(g)
        (a * b).backward(G)
        (a + b).backward(G)
        out.pair("seed gradient unchanged", snapshot(G.data), snap)
        out.pair("grad(a)", gradof(a), g * b.data + g)
        out.pair("grad(b)", gradof(b), g * a.data + g)
        return out

    def s_views_of_one_array(self, env):
        out = E.Outcome()
        Tn = T()
        base = env.arr("base", (4,))
        a = Tn(base[:3], requires_grad=True)      # overlapping views of one buffer
        b = Tn(base[1:], requires_grad=True)
        snap = snapshot(base)
        o = a * b + a
        g = env.arr("g", (3,))
        o.backward(Tn(g))
        out.pair("shared buffer unchanged", snapshot(base), snap)
        out.pair("grad(a)", gradof(a), g * b.data + g)
        out.pair("grad(b)", gradof(b), g * a.data)
        return out

    def s_tensor_used_by_several_ops(self, env):
        out = E.Outcome()
        Tn = T()
        import synapgrad.nn.functional as NF
        x = Tn(env.arr("x", (2, 2)), requires_grad=True)
        snap = snapshot(x.data)
        y = NF.softmax(x, 1) + NF.log_softmax(x, 0) + x.exp() + x @ x
        g = env.arr("g", (2, 2))
        y.backward(Tn(g))
        out.pair("operand unchanged", snapshot(x.data), snap)
        return out

    def s_clone_detach_independent(self, env):
        out = E.Outcome()
        Tn = T()
        x = Tn(env.arr("x", (3,)), requires_grad=True)
        c = x.clone()
        d = x.detach()
        out.fact("clone has its own storage", not np.shares_memory(ar.unwrap(c.data), ar.unwrap(x.data)))
        out.fact("detach has its own storage", not np.shares_memory(ar.unwrap(d.data), ar.unwrap(x.data)))
        out.fact("detach does not require grad", not d.requires_grad)
        out.pair("clone value", c.data, x.data)
        out.pair("detach value", d.data, x.data)
        return out

    def s_clone_detach_independent_under_no_grad(self, env):
        import synapgrad
        out = E.Outcome()
        Tn = T()
        x = Tn(env.arr("x", (3,)), requires_grad=True)
        with synapgrad.no_grad():
            c = x.clone()
            d = x.detach()
            y = (x * 2.0).detach()
        out.fact("clone under no_grad has its own storage", not np.shares_memory(ar.unwrap(c.data), ar.unwrap(x.data)))
        out.fact("detach under no_grad has its own storage", not np.shares_memory(ar.unwrap(d.data), ar.unwrap(x.data)))
        snap = snapshot(d.data)
        x.data -= 1.0                   # a documented in-place update of the source (what optimizer.step does)
        out.pair("a snapshot taken with detach() under no_grad does not follow the source", d.data, snap)
        out.pair("clone taken under no_grad does not follow the source", c.data, snap)
        return out

    def s_untracked_bridge(self, env):
        """a result computed while gradients are not tracked cuts the graph: a backward call from further down must not reach
        (allocate, zero or change) the gradients of what lies behind it"""
        import synapgrad
        out = E.Outcome()
        Tn = T()
        x = Tn(env.arr("x", (2,)))
        w = Tn(env.arr("w", (2,)), requires_grad=True)          # "encoder" parameter, never differentiated here
        v = Tn(env.arr("v", (2,)), requires_grad=True)          # "head" parameter
        with synapgrad.no_grad():
            feats = x * w
        (feats * v).sum().backward()
        out.fact("a parameter behind an untracked result gets no gradient buffer", gradof(w) is None,
                 "its .grad is %s" % ("None" if gradof(w) is None else "an array"))
        out.pair("the tracked parameter's gradient", snapshot(gradof(v)), snapshot(feats.data))
        # an intermediate result that holds a retained gradient, later used by an untracked computation
        u = Tn(env.arr("u", (2,)), requires_grad=True)
        h = u * 3.0
        h.retain_grad()
        g = env.arr("g", (2,))
        h.backward(Tn(g))
        kept_h, kept_u = snapshot(gradof(h)), snapshot(gradof(u))
        with synapgrad.no_grad():
            f2 = h * 2.0
        (f2 * v).sum().backward()
        out.pair("a retained gradient behind an untracked result is left alone", snapshot(gradof(h)), kept_h)
        out.pair("a leaf gradient behind an untracked result is left alone", snapshot(gradof(u)), kept_u)
        # the untracked result is then made a leaf that requires grad (differentiating a loss with respect to frozen features):
        # the graph of the loss ends at it all the same
        w2 = Tn(env.arr("w2", (2,)), requires_grad=True)         # never differentiated
        with synapgrad.no_grad():
            f3 = h * w2
        f3.requires_grad = True
        kept_h, kept_u = snapshot(gradof(h)), snapshot(gradof(u))
        g3 = env.arr("g3", (2,))
        (f3 * v).backward(Tn(g3))
        out.fact("a tensor behind a flagged untracked result gets no gradient buffer", gradof(w2) is None,
                 "its .grad is %s" % ("None" if gradof(w2) is None else "an array"))
        out.pair("a retained gradient behind a flagged untracked result is left alone", snapshot(gradof(h)), kept_h)
        out.pair("a leaf gradient behind a flagged untracked result is left alone", snapshot(gradof(u)), kept_u)
        out.pair("the flagged result itself receives the gradient", snapshot(gradof(f3)), g3 * v.data)
        return out

    def s_wrapped_tensor_own_gradient(self, env):
        """Tensor(t) / nn.Parameter(t) may share the data of t, but the wrapper's gradient is its own: differentiating a graph
        of the wrapper must not change t's gradient (t is outside that graph)"""
        from synapgrad import nn
        out = E.Outcome()
        Tn = T()
        w = Tn(env.arr("w", (2,)), requires_grad=True)
        g1 = env.arr("g1", (2,))
        (w * 3.0).backward(Tn(g1))
        before = snapshot(gradof(w))
        p = nn.Parameter(w)
        g2 = env.arr("g2", (2,))
        (p * 5.0).backward(Tn(g2))
        out.pair("the wrapped tensor's gradient is untouched by a backward through the wrapper", snapshot(gradof(w)), before)
        out.fact("wrapper and wrapped tensor do not share a gradient buffer",
                 gradof(p) is None or gradof(w) is None or not np.shares_memory(ar.unwrap(gradof(p)), ar.unwrap(gradof(w))))
        return out

    def _wrapped_frozen(self, env, kind):
        """round k: the wrapped tensor is frozen (requires_grad False) but still carries a gradient when it is wrapped, and the
        wrapper is unfrozen afterwards - t is outside the wrapper's graph whatever its flag was at wrapping time"""
        from synapgrad import nn
        import synapgrad
        out = E.Outcome()
        Tn = T()
        w = Tn(env.arr("w", (2,)), requires_grad=True)
        (w * 3.0).backward(Tn(env.arr("g1", (2,))))
        w.requires_grad = False
        before = snapshot(gradof(w))
        p = nn.Parameter(w) if kind == "parameter" else synapgrad.Tensor(w)
        p.requires_grad = True
        (p * 5.0).backward(Tn(env.arr("g2", (2,))))
        out.pair("the frozen wrapped tensor's gradient is untouched by a backward through the unfrozen wrapper (%s)" % kind, snapshot(gradof(w)), before)
        out.fact("unfrozen wrapper and frozen wrapped tensor do not share a gradient buffer (%s)" % kind,
                 gradof(p) is None or gradof(w) is None or not np.shares_memory(ar.unwrap(gradof(p)), ar.unwrap(gradof(w))))
        return out

    def s_wrapped_frozen_tensor_parameter(self, env):
        return self._wrapped_frozen(env, "parameter")

    def s_wrapped_frozen_tensor_tensor(self, env):
        return self._wrapped_frozen(env, "tensor")

    def s_assigned_gradient_own_buffer(self, env):
        """a gradient handed over through the public .grad setter (copying it from another tensor, or one zero tensor used
        to initialise several parameters) becomes the tensor's own: later backward calls accumulate into the assignee only -
        neither the tensor it came from nor a second assignee is outside the graph being differentiated any less than before"""
        out = E.Outcome()
        Tn = T()
        a = Tn(env.arr("a", (2,)), requires_grad=True)
        b = Tn(env.arr("b", (2,)), requires_grad=True)
        g1, g2 = env.arr("g1", (2,)), env.arr("g2", (2,))
        (a * 2.0).backward(Tn(g1))
        kept = snapshot(gradof(a))
        b.grad = a.grad                      # same dtype: nothing forces a conversion
        (b * 3.0).backward(Tn(g2))           # a is not reachable from this root
        out.pair("the tensor a gradient was copied from keeps its own gradient", snapshot(gradof(a)), kept)
        out.pair("the assignee accumulates onto the assigned values", gradof(b), g1 * 2.0 + g2 * 3.0)
        x = Tn(env.arr("x", (2,)), requires_grad=True)
        y = Tn(env.arr("y", (2,)), requires_grad=True)
        z = Tn(env.const(np.zeros(2), np.float32))
        zsnap = snapshot(z.data)
        x.grad = z
        y.grad = z
        g3 = env.arr("g3", (2,))
        (x * 2.0 + y * 5.0).backward(Tn(g3))
        out.pair("grad(x) after one shared initial gradient", gradof(x), g3 * 2.0)
        out.pair("grad(y) after one shared initial gradient", gradof(y), g3 * 5.0)
        out.pair("the tensor that was assigned is not written to", snapshot(z.data), zsnap)
        return out

    def _frozen_target(self, env, which):
        """a target that does not require grad but still carries a gradient (trained, then frozen): outside the graph, so its
        gradient is not touched either"""
        from synapgrad import nn
        out = E.Outcome()
        Tn = T()
        nm, mk_loss, dom = {"mse": ("MSELoss", lambda: nn.MSELoss(), {}), "mse_sum": ("MSELoss(sum)", lambda: nn.MSELoss(reduction="sum"), {}),
                            "bce": ("BCELoss", lambda: nn.BCELoss(), dict(lo=0.1, hi=0.9)),
                            "bce_logits": ("BCEWithLogitsLoss", lambda: nn.BCEWithLogitsLoss(), dict(lo=0.1, hi=0.9))}[which]
        shp = (2,) if nm.startswith("MSE") else (1,)
        pr = Tn(env.arr("pr", shp, **(dom if nm.startswith("BCELoss") else {})), requires_grad=True)
        tg = Tn(env.arr("tg", shp, **dom), requires_grad=True)
        (tg * 2.0).backward(Tn(env.arr("gt", shp)))
        tg.requires_grad = False
        kept_g, kept_d = snapshot(gradof(tg)), snapshot(tg.data)
        mk_loss()(pr, tg).backward()
        out.pair("%s: the gradient a frozen target still carries is untouched" % nm, snapshot(gradof(tg)), kept_g)
        out.pair("%s: the frozen target's data is untouched" % nm, snapshot(tg.data), kept_d)
        return out

    def s_frozen_target_mse(self, env):
        return self._frozen_target(env, "mse")

    def s_frozen_target_mse_sum(self, env):
        return self._frozen_target(env, "mse_sum")

    def s_frozen_target_bce(self, env):
        return self._frozen_target(env, "bce")

    def s_frozen_target_bce_logits(self, env):
        return self._frozen_target(env, "bce_logits")

    def s_loss_target_untouched(self, env):
        out = E.Outcome()
        Tn = T()
        from synapgrad import nn
        p = Tn(env.arr("p", (2, 2)), requires_grad=True)
        y = Tn(np.array([1, 0], dtype=np.int32))
        ysnap = y.data.copy()
        loss = nn.CrossEntropyLoss()(p, y)
        loss.backward()
        psnap = snapshot(p.data)
        out.fact("labels unchanged", bool(np.array_equal(y.data, ysnap)))
        out.pair("logits unchanged", snapshot(p.data), psnap)
        import synapgrad.nn.functional as NF
        for nm, fn, logp in (("NLLLoss", nn.NLLLoss(), True), ("NLLLoss(none)", nn.NLLLoss(reduction="none"), True),
                             ("F.nll_loss", NF.nll_loss, True), ("F.cross_entropy", NF.cross_entropy, False),
                             ("CrossEntropyLoss(sum)", nn.CrossEntropyLoss(reduction="sum"), False)):
            for dt in (np.int32, np.int64):
                yy = Tn(np.array([1, 0], dtype=dt))
                before = (yy.data.copy(), yy.data.shape, yy.data.dtype, yy.data)
                q = Tn(env.const([[0.5, -1.0], [0.25, 2.0]]), requires_grad=True)     # the fact does not depend on the scores
                l_ = fn(NF.log_softmax(q, 1) if logp else q, yy)
                (l_.sum() if l_.ndim else l_).backward()
                out.fact("%s leaves its %s labels alone (values, shape, dtype, array)" % (nm, np.dtype(dt).name),
                         yy.data is before[3] and yy.data.shape == before[1] and yy.data.dtype == before[2]
                         and bool(np.array_equal(yy.data, before[0])),
                         "labels now %s %s %s" % (yy.data.tolist(), yy.data.shape, yy.data.dtype))
        t = Tn(env.arr("t", (2, 2), lo=0, hi=1))
        tsnap = snapshot(t.data)
        l2 = nn.BCEWithLogitsLoss()(p, t) + nn.MSELoss()(p, t)
        l2.backward()
        out.pair("float target unchanged", snapshot(t.data), tsnap)
        return out


SCENARIOS = ["leaf_root_then_accumulate", "seed_reused_twice", "views_of_one_array", "tensor_used_by_several_ops",
             "clone_detach_independent", "clone_detach_independent_under_no_grad", "loss_target_untouched", "untracked_bridge",
             "wrapped_tensor_own_gradient", "assigned_gradient_own_buffer",
             "frozen_target_mse", "frozen_target_mse_sum", "frozen_target_bce", "frozen_target_bce_logits",
             "wrapped_frozen_tensor_parameter", "wrapped_frozen_tensor_tensor"]


def enumerate_specs(tier):
    specs = [{"scenario": s} for s in SCENARIOS]
    for cname, reg in CATS.items():
        for name, od in reg.items():
            if "C11" not in od.props:
                continue
            cfgs = od.configs(tier)
            if tier == "quick" and len(cfgs) > 16:
                step = max(1, len(cfgs) // 16)
                cfgs = cfgs[::step]
            for ci, args in enumerate(cfgs):
                specs.append({"cat": cname, "op": name, "args": args, "variant": {}})
                # conversions are no-ops (no copy) exactly when the operand already has the target dtype, so aliasing
                # depends on the dtype: float64 operands too (quick: every third configuration)
                if tier != "quick" or ci % 3 == 0:
                    specs.append({"cat": cname, "op": name, "args": args, "variant": {"dtype": "float64"}})
    return specs


def build(spec):
    if "scenario" in spec:
        return Scenario(spec["scenario"])
    return OpCase(PROP, CATS[spec["cat"]][spec["op"]], spec["args"], spec.get("variant"))


def main(tier, seed):
    t0 = time.time()
    specs = enumerate_specs(tier)
    results = runner.run_pool(__name__, specs, tier, seed)
    return runner.finish(
        PROP, tier, seed, results, t0,
        bounds={"grid": "op configurations of the C01/C02 catalogues (quick: <= 16 per op, evenly spaced) with float32 operands, and with "
                        "float64 operands (quick: every third configuration) + aliasing scenarios",
                "scenarios": SCENARIOS},
        assumptions=["symbolic arrays are real ndarrays with NumPy's real in-place and aliasing behaviour; an element that "
                     "was written is a different node unless the solver proves it equal for all values",
                     "the whitelist of documented in-place updates (optimizer step, initialisers, batch-norm running "
                     "statistics, zeroing of gradients) is exercised by C08/C13/C15, not here",
                     "bit-identical repetition is decided as term identity (floats are reals)"],
        stubs=["numpy creators inside synapgrad return constant symbolic arrays"],
        rule="per configuration: snapshot operands, a bystander tensor (data+grad) and the caller's seed gradient; run "
             "forward, backward, forward, backward; every snapshotted element must be the same term")
