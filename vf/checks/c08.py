"""C08 - SGD / Adam / AdamW follow the published PyTorch update rules on any history of
{backward, zero_grad, step}; updates are in place, touch only given parameters that require grad, and the
optimizer state is never corrupted by later gradient accumulation."""
from __future__ import annotations

import itertools
import time

import numpy as np

from ..harness import T, sig_of, snapshot, gradof, set_grad
from ..symnum import engine as E
from ..symnum import array as ar
from ..symnum.scalar import S
from .. import runner

PROP = "C08"


def ssqrt(x):
    return x.sqrt() if isinstance(x, S) else np.sqrt(x)


# ------------------------------------------------------------------------------------------ reference rules
class RefParam:
    def __init__(self, vals, requires_grad=True):
        self.p = list(vals)
        self.grad = None
        self.requires_grad = requires_grad
        self.state = {}


def ref_sgd_step(P, h):
    """torch.optim.SGD (documented algorithm), one parameter"""
    if not P.requires_grad or P.grad is None:
        return
    g = [(-x if h["maximize"] else x) for x in P.grad]
    if h["weight_decay"] != 0:
        g = [gi + h["weight_decay"] * pi for gi, pi in zip(g, P.p)]
    if h["momentum"] != 0:
        if "buf" not in P.state:
            buf = list(g)
        else:
            buf = [h["momentum"] * b + (1 - h["dampening"]) * gi for b, gi in zip(P.state["buf"], g)]
        P.state["buf"] = buf
        if h["nesterov"]:
            g = [gi + h["momentum"] * b for gi, b in zip(g, buf)]
        else:
            g = buf
    P.p = [pi - h["lr"] * gi for pi, gi in zip(P.p, g)]


def ref_adam_step(P, h, decoupled):
    """torch.optim.Adam / AdamW (documented algorithm), one parameter"""
    if not P.requires_grad or P.grad is None:
        return
    t = P.state.get("t", 0) + 1
    P.state["t"] = t
    g = [(-x if h["maximize"] else x) for x in P.grad]
    if decoupled:
        P.p = [pi - h["lr"] * h["weight_decay"] * pi for pi in P.p]
    elif h["weight_decay"] != 0:
        g = [gi + h["weight_decay"] * pi for gi, pi in zip(g, P.p)]
    m = P.state.get("m", [0] * len(g))
    v = P.state.get("v", [0] * len(g))
    m = [h["beta1"] * mi + (1 - h["beta1"]) * gi for mi, gi in zip(m, g)]
    v = [h["beta2"] * vi + (1 - h["beta2"]) * gi * gi for vi, gi in zip(v, g)]
    P.state["m"], P.state["v"] = m, v
    mh = [mi / (1 - h["beta1"] ** t) for mi in m]
    vh = [vi / (1 - h["beta2"] ** t) for vi in v]
    P.p = [pi - (h["lr"] * mhi) / (ssqrt(vhi) + h["eps"]) for pi, mhi, vhi in zip(P.p, mh, vh)]


# ------------------------------------------------------------------------------------------ configurations
SGD_FLAGS = [
    {"momentum": 0, "dampening": 0, "weight_decay": 0, "nesterov": False, "maximize": False},
    {"momentum": "s", "dampening": 0, "weight_decay": 0, "nesterov": False, "maximize": False},
    {"momentum": "s", "dampening": "s", "weight_decay": 0, "nesterov": False, "maximize": False},
    {"momentum": "s", "dampening": 0, "weight_decay": 0, "nesterov": True, "maximize": False},
    {"momentum": 0, "dampening": 0, "weight_decay": "s", "nesterov": False, "maximize": False},
    {"momentum": 0, "dampening": 0, "weight_decay": 0, "nesterov": False, "maximize": True},
    {"momentum": 0, "dampening": 0, "weight_decay": "s", "nesterov": False, "maximize": True},
    {"momentum": "s", "dampening": "s", "weight_decay": "s", "nesterov": False, "maximize": True},
    {"momentum": "s", "dampening": 0, "weight_decay": "s", "nesterov": True, "maximize": False},
]
ADAM_FLAGS = [
    {"weight_decay": 0, "maximize": False},
    {"weight_decay": "s", "maximize": False},
    {"weight_decay": 0, "maximize": True},
    {"weight_decay": "s", "maximize": True},
]
SETUPS = ["one", "frozen", "unreached"]


def histories(maxlen, maxsteps):
    out = []
    for n in range(1, maxlen + 1):
        for h in itertools.product("bzs", repeat=n):
            h = "".join(h)
            if "s" not in h or h.count("s") > maxsteps or h[-1] != "s":
                continue
            out.append(h)
    return out


def enumerate_specs(tier):
    specs = []
    maxlen, maxsteps = (4, 2) if tier == "quick" else (6, 3)
    hs = histories(maxlen, maxsteps)
    for opt, flagsets in (("SGD", SGD_FLAGS), ("Adam", ADAM_FLAGS), ("AdamW", ADAM_FLAGS)):
        for fi, fl in enumerate(flagsets):
            for hi, h in enumerate(hs):
                if tier == "quick" and len(h) == 4 and (hi + fi) % 2:
                    continue
                if tier != "quick" and len(h) == 6 and (hi + fi) % 4:
                    continue
                if tier != "quick" and opt != "SGD" and h.count("s") == 3 and (hi + fi) % 3:
                    continue
                setup = "one"
                if (hi + fi) % 5 == 1:
                    setup = "frozen"
                elif (hi + fi) % 5 == 3:
                    setup = "unreached"
                elif (hi + fi) % 5 == 2:
                    setup = "two"
                elif (hi + fi) % 5 == 4 and h.count("b") >= 2:
                    setup = "late" if (hi + fi) % 2 else "late0"
                specs.append({"opt": opt, "flags": fl, "history": h, "setup": setup})
    # the set of parameters a step updates changes between steps (state-bearing flag sets only)
    for opt, flagsets in (("SGD", [f for f in SGD_FLAGS if f["momentum"] != 0][:3]), ("Adam", ADAM_FLAGS[:2]), ("AdamW", ADAM_FLAGS[:2])):
        for fl in flagsets:
            for setup in ("late", "late0"):
                for h in ("bsbs",) + (("bsbsbs", "bsbzbs") if tier != "quick" else ()):
                    specs.append({"opt": opt, "flags": fl, "history": h, "setup": setup})
    for opt in ("SGD", "Adam", "AdamW"):
        specs.append({"opt": opt, "flags": {}, "history": "bs", "setup": "one", "defaults": True})
        specs.append({"opt": opt, "flags": {}, "history": "bsbs", "setup": "two", "defaults": True})
    for fl in SGD_FLAGS:
        for state in (("fresh", "buffer") if fl["momentum"] != 0 else ("fresh",)):
            specs.append({"kind": "induct", "opt": "SGD", "flags": fl, "state": state})
    for opt in ("Adam", "AdamW"):
        for fl in ADAM_FLAGS:
            for state in (0, 1, 2) if tier == "quick" else (0, 1, 2, 3, 5):
                specs.append({"kind": "induct", "opt": opt, "flags": fl, "state": state})
    return specs


class Case:
    prop = PROP

    def __init__(self, spec):
        self.spec = spec
        self.sig = sig_of(spec["opt"], {"flags": spec["flags"], "history": spec["history"], "setup": spec["setup"]},
                          {"defaults": True} if spec.get("defaults") else None)

    def hyper(self, env):
        fl = self.spec["flags"]
        if self.spec.get("defaults"):
            # the defaults documented in the docstrings (lr 0.001, betas (0.9, 0.999), eps 1e-08, everything else 0 / False): the optimizer is built from the parameter list alone
            if self.spec["opt"] == "SGD":
                return {"lr": 0.001, "momentum": 0, "dampening": 0, "weight_decay": 0, "nesterov": False, "maximize": False}
            return {"lr": 0.001, "beta1": 0.9, "beta2": 0.999, "eps": 1e-8, "weight_decay": 0,
                    "maximize": False}
        h = {"lr": env.scalar("lr", lo=0, hi=1, lo_strict=True, nonzero=True)}
        if self.spec["opt"] == "SGD":
            for k in ("momentum", "dampening", "weight_decay"):
                h[k] = env.scalar(k, lo=0, hi=1, lo_strict=True, hi_strict=True, nonzero=True) if fl[k] == "s" else fl[k]
            h["nesterov"] = fl["nesterov"]
        else:
            h["beta1"] = env.scalar("beta1", lo=0, hi=1, lo_strict=True, hi_strict=True, nonzero=True)
            h["beta2"] = env.scalar("beta2", lo=0, hi=1, lo_strict=True, hi_strict=True, nonzero=True)
            h["eps"] = env.scalar("eps", lo=0, hi=1, lo_strict=True, nonzero=True)
            h["weight_decay"] = env.scalar("weight_decay", lo=0, hi=1, lo_strict=True, hi_strict=True,
                                           nonzero=True) if fl["weight_decay"] == "s" else fl["weight_decay"]
        h["maximize"] = fl["maximize"]
        return h

    def run(self, env):
        import synapgrad
        from synapgrad import nn, optim
        Tn = T()
        out = E.Outcome()
        sp = self.spec
        h = self.hyper(env)
        shapes = [(2,)] if sp["setup"] == "one" else ([(2,), (2,)] if sp["setup"] == "late0" else [(2,), (1, 2)])
        params, refs, arrays = [], [], []
        for i, shp in enumerate(shapes):
            a = env.arr("p%d" % i, shp)
            frozen = (sp["setup"] == "frozen" and i == 1)
            p = nn.Parameter(Tn(a, requires_grad=not frozen))
            params.append(p)
            arrays.append(a)
            refs.append(RefParam([a[idx] for idx in np.ndindex(*shp)], requires_grad=not frozen))
        initial = [[a[idx] for idx in np.ndindex(*a.shape)] for a in arrays]
        if sp.get("defaults"):
            opt = {"SGD": optim.SGD, "Adam": optim.Adam, "AdamW": optim.AdamW}[sp["opt"]](params)
        elif sp["opt"] == "SGD":
            opt = optim.SGD(params, lr=h["lr"], momentum=h["momentum"], dampening=h["dampening"],
                            weight_decay=h["weight_decay"], nesterov=h["nesterov"], maximize=h["maximize"])
        else:
            cls = optim.Adam if sp["opt"] == "Adam" else optim.AdamW
            opt = cls(params, lr=h["lr"], betas=(h["beta1"], h["beta2"]), eps=h["eps"], weight_decay=h["weight_decay"],
                      maximize=h["maximize"])
        # two: both parameters receive (different) gradients in every backward; late: the second one only from the second
        # backward on, so its per-parameter state (momentum buffer, moments, step count) starts a step later
        # late0: the *first* parameter joins a step after the second, so the set of parameters a step updates changes ahead of
        # an updated one (per-parameter state must follow the parameter, not its position among the active ones)
        reached = [True] + ([sp["setup"] in ("two", "late", "late0")] if len(shapes) > 1 else [])
        nb = 0
        for step_i, act in enumerate(sp["history"]):
            if act == "b":
                loss = None
                for i, (p, r) in enumerate(zip(params, refs)):
                    if not reached[i] or not r.requires_grad or (sp["setup"] == "late" and i == 1 and nb == 0) \
                            or (sp["setup"] == "late0" and i == 0 and nb == 0):
                        continue
                    c = env.arr("c%d_%d" % (nb, i), p.shape, lo=-2, hi=2)
                    term = (p * Tn(c)).sum()
                    loss = term if loss is None else loss + term
                    cs = [c[idx] for idx in np.ndindex(*p.shape)]
                    r.grad = cs if r.grad is None else [g + ci for g, ci in zip(r.grad, cs)]
                nb += 1
                loss.backward()
            elif act == "z":
                opt.zero_grad()
                # both PyTorch conventions are accepted: a buffer of zeros (a later step sees a zero gradient) or no
                # buffer at all (a later step skips the parameter); the reference mirrors what the optimizer left
                for r, p in zip(refs, params):
                    if r.requires_grad and r.grad is not None:
                        r.grad = None if gradof(p) is None else [0 * x for x in r.p]
                    # a parameter that holds no gradient has nothing to clear: under either convention it still has none
                    # afterwards, and the next step() leaves it alone (PyTorch skips parameters whose .grad is None)
            else:
                opt.step()
                for r in refs:
                    if sp["opt"] == "SGD":
                        ref_sgd_step(r, h)
                    else:
                        ref_adam_step(r, h, sp["opt"] == "AdamW")
                tag = "after action %d (%s)" % (step_i, sp["history"][:step_i + 1])
                for i, (p, r, a) in enumerate(zip(params, refs, arrays)):
                    out.pair("p%d %s" % (i, tag), snapshot(p.data), np.array(r.p, dtype=object).reshape(p.shape)
                             if env.sym else np.array(r.p, dtype=np.float64).reshape(p.shape))
                    out.fact("p%d updated in place (same array object) %s" % (i, tag), p.data is a)
                    out.fact("p%d keeps dtype and shape %s" % (i, tag),
                             str(p.dtype) == "float32" and tuple(p.shape) == tuple(shapes[i]),
                             "dtype %s shape %s" % (p.dtype, tuple(p.shape)))
                # optimizer state must not alias any gradient buffer
                bufs = []
                for nm in ("momentum_buffer", "m1", "m2"):
                    for b in getattr(opt, nm, []) or []:
                        if isinstance(b, np.ndarray):
                            bufs.append((nm, b))
                for nm, b in bufs:
                    for i, p in enumerate(params):
                        if gradof(p) is not None:
                            out.fact("%s shares no memory with p%d.grad %s" % (nm, i, tag),
                                     not np.shares_memory(ar.unwrap(b), ar.unwrap(gradof(p))))
        for i, (p, r) in enumerate(zip(params, refs)):
            if not r.requires_grad:
                out.pair("frozen p%d unchanged" % i, p.data, np.array(initial[i], dtype=object if env.sym else np.float64).reshape(p.shape))
                out.fact("frozen p%d never acquires a gradient" % i, gradof(p) is None)
        return out



def inject(opt, state, t):
    """write a per-parameter optimizer state through the attribute layout of the pinned tree (parallel lists with one
    entry per parameter + a global counter `t`).  How an optimizer keeps its state is its own business, so this is only
    used after StepCase.injection_works() has shown - by behaviour, not by looking at the attributes - that a state
    written this way is the state the next step() really uses; otherwise the case is unsupported (inconclusive)."""
    from ..symnum.scalar import Unsupported
    for name, val in state.items():
        cur = getattr(opt, name, None)
        if not (isinstance(cur, list) and len(cur) == 1):
            raise Unsupported("the optimizer keeps its state in a layout this harness does not know (%s)" % name)
        try:
            cur[0] = val
        except Exception:  # noqa: BLE001
            raise Unsupported("the optimizer state %s cannot be written" % name)
        if getattr(opt, name)[0] is not val:
            raise Unsupported("the optimizer state %s is not kept where this harness writes it" % name)
    try:
        opt.t = t
    except Exception:  # noqa: BLE001
        raise Unsupported("the optimizer's step counter cannot be written")


def extract(opt, names):
    from ..symnum.scalar import Unsupported
    st = {}
    for name in names:
        cur = getattr(opt, name, None)
        if not (isinstance(cur, list) and len(cur) == 1):
            raise Unsupported("the optimizer keeps its state in a layout this harness does not know (%s)" % name)
        st[name] = cur[0].copy() if isinstance(cur[0], np.ndarray) else cur[0]
    return st


class StepCase(Case):
    """inductive step: arbitrary symbolic optimizer state (momentum buffer / moment estimates / step count) and an
    arbitrary gradient; one real step() must equal one step of the documented rule from that state.  Together with the
    initial-state histories this covers trajectories of any length (invariant: second-moment estimate >= 0)."""

    def __init__(self, spec):
        self.spec = spec
        self.sig = sig_of(spec["opt"] + "-step", {"flags": spec["flags"], "state": spec["state"]}, None)


    def injection_works(self, env, sp, k):
        """behavioural validation of inject(): optimizer A reaches a state by k real steps on concrete gradients; that
        state is copied into a fresh optimizer B around an equal parameter; one more step of each on the same gradient
        must give bit-identical parameters (and B must differ from a fresh optimizer C without the injected state).  If
        not, this harness cannot set the state of this implementation and the inductive step is unsupported."""
        from synapgrad import nn, optim
        from ..symnum.scalar import Unsupported
        Tn = T()
        fl = sp["flags"]
        num = lambda v_, d: d if v_ == "s" else v_      # noqa: E731
        if sp["opt"] == "SGD":
            kw = dict(lr=0.125, momentum=num(fl["momentum"], 0.5), dampening=num(fl["dampening"], 0.25),
                      weight_decay=num(fl["weight_decay"], 0.0625), nesterov=fl["nesterov"], maximize=fl["maximize"])
            cls, names = optim.SGD, ["momentum_buffer"]
        else:
            kw = dict(lr=0.125, betas=(0.5, 0.75), eps=0.015625, weight_decay=num(fl["weight_decay"], 0.0625), maximize=fl["maximize"])
            cls, names = (optim.Adam if sp["opt"] == "Adam" else optim.AdamW), ["m1", "m2", "steps"]
        grads = [[0.5, -1.25], [-0.75, 2.0], [1.5, 0.25], [-2.0, 1.0], [0.125, -0.5], [1.0, 1.0]]

        def mk(vals):
            q = nn.Parameter(Tn(vals, requires_grad=True))
            return q, cls([q], **kw)

        def key(x):      # symbolic run: hash-consed nodes (identical computations give identical nodes); plain run: floats
            if env.sym:
                return [id(n) for n in E.flat_nodes(x)[0]]
            return [float(v_) for v_ in np.asarray(x, dtype=np.float64).ravel()]
        try:
            pa, A = mk(env.const([0.75, -1.5], np.float64))
            for i in range(k):
                set_grad(pa, env.const(grads[i], np.float64))
                A.step()
            st = extract(A, names)
            pb, B = mk(snapshot(pa.data))
            pc, C = mk(snapshot(pa.data))
            inject(B, st, k if sp["opt"] != "SGD" else 3)
            for q, O in ((pa, A), (pb, B), (pc, C)):
                set_grad(q, env.const(grads[k], np.float64))
                O.step()
            va, vb, vc = (key(q.data) for q in (pa, pb, pc))
        except Unsupported:
            raise
        except Exception as e:  # noqa: BLE001
            raise Unsupported("state injection could not be validated: %r" % (e,))
        if va != vb or vb == vc:
            raise Unsupported("a state written through the known attribute layout is not the state step() uses")

    def run(self, env):
        from synapgrad import nn, optim
        Tn = T()
        out = E.Outcome()
        sp = self.spec
        h = self.hyper(env)
        shp = (2,)
        a = env.arr("p0", shp)
        p = nn.Parameter(Tn(a, requires_grad=True))
        g = env.arr("grad", shp, lo=-2, hi=2)
        set_grad(p, snapshot(g))
        R = RefParam([a[i] for i in range(2)])
        R.grad = [g[i] for i in range(2)]
        if sp["opt"] == "SGD":
            opt = optim.SGD([p], lr=h["lr"], momentum=h["momentum"], dampening=h["dampening"],
                            weight_decay=h["weight_decay"], nesterov=h["nesterov"], maximize=h["maximize"])
            if sp["state"] == "buffer":
                self.injection_works(env, sp, 1)
                b = env.arr("buf", shp)
                inject(opt, {"momentum_buffer": snapshot(b)}, 3)
                R.state["buf"] = [b[i] for i in range(2)]
        else:
            cls = optim.Adam if sp["opt"] == "Adam" else optim.AdamW
            opt = cls([p], lr=h["lr"], betas=(h["beta1"], h["beta2"]), eps=h["eps"], weight_decay=h["weight_decay"],
                      maximize=h["maximize"])
            k = int(sp["state"])
            if k > 0:
                self.injection_works(env, sp, k)
                m = env.arr("m", shp)
                v = env.arr("v", shp, lo=0, hi=3)
                inject(opt, {"m1": snapshot(m), "m2": snapshot(v), "steps": k}, k)
                R.state.update(m=[m[i] for i in range(2)], v=[v[i] for i in range(2)], t=k)
        opt.step()
        if sp["opt"] == "SGD":
            ref_sgd_step(R, h)
        else:
            ref_adam_step(R, h, sp["opt"] == "AdamW")
        out.pair("parameter after one step from an arbitrary state", snapshot(p.data),
                 np.array(R.p, dtype=object if env.sym else np.float64))
        out.fact("updated in place", p.data is a)
        out.pair("the gradient buffer is left alone by step()", snapshot(gradof(p)), g)
        # how the optimizer represents its state internally is its own business: only aliasing is checked here, the values
        # are observable through the parameter trajectories of the history cases
        for nm in ("momentum_buffer", "m1", "m2"):
            for b in getattr(opt, nm, []) or []:
                if isinstance(b, np.ndarray):
                    out.fact("%s shares no memory with the gradient" % nm, not np.shares_memory(ar.unwrap(b), ar.unwrap(gradof(p))))
        return out


def build(spec):
    if spec.get("kind") == "induct":
        return StepCase(spec)
    return Case(spec)


def main(tier, seed):
    t0 = time.time()
    specs = enumerate_specs(tier)
    results = runner.run_pool(__name__, specs, tier, seed)
    return runner.finish(
        PROP, tier, seed, results, t0,
        bounds={"inductive_step": "one step from an arbitrary symbolic state: SGD momentum buffer present/absent; Adam/AdamW moment "
                                  "estimates arbitrary (second moment >= 0) with 0-2 (quick) / 0-5 (thorough) previous updates",
                "history_length": "<= 4 with <= 2 steps (quick) / <= 6 with <= 3 steps (thorough), ending in a step",
                "parameters": "one (2,) parameter, or (2,)+(1,2) with the second frozen / never reached by backward / reached like the first / reached from the second backward on",
                "flag sets": {"SGD": len(SGD_FLAGS), "Adam": len(ADAM_FLAGS), "AdamW": len(ADAM_FLAGS)}},
        assumptions=["floats are reals", "hyper-parameters range over lr>0, momentum/dampening/weight_decay/betas in (0,1), "
                     "eps>0 (symbolic) or are exactly 0 (enumerated)",
                     "zero_grad may either fill with zeros (a later step sees a zero gradient) or drop the buffers (a later step skips the parameter), as PyTorch's set_to_none allows; the reference follows whichever the optimizer does",
                     "reference = the algorithm boxes of the PyTorch documentation of SGD/Adam/AdamW written on scalars; "
                     "per-parameter step counts and momentum buffers as in PyTorch"],
        stubs=["numpy creators inside synapgrad return constant symbolic arrays"],
        rule="one configuration = optimizer x flag set x parameter set-up x history over {b,z,s}; every gradient "
             "contribution, parameter value and non-zero hyper-parameter is symbolic")
