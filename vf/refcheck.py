"""Oracle validation (thorough tier): the index-level reference definitions of the op catalogues are evaluated on
seeded float64 inputs and compared with the PyTorch operation they claim to define.  This is a test of the *oracle*,
not a verdict about synapgrad: a mismatch is a harness error."""
from __future__ import annotations

import random

import numpy as np


def _t(x):
    import torch
    return torch.tensor(np.asarray(x, dtype=np.float64))


def _ev(key):
    return eval(key, {"np": np, "slice": slice, "Ellipsis": Ellipsis, "None": None, "True": True, "False": False})


def _tuple(v):
    return tuple(v) if isinstance(v, list) else v


def torch_value(name, args, xs, extra):
    """-> list of numpy arrays (torch's answer) or None when no mapping exists"""
    import torch
    import torch.nn.functional as TF
    X = [_t(x) for x in xs]
    c = extra.get("c")
    if name in ("add", "sub", "mul", "div"):
        op = {"add": torch.add, "sub": torch.sub, "mul": torch.mul, "div": torch.div}[name]
        if "int" in args:
            return None
        if args["form"] == "tt":
            return [op(X[0], X[1])]
        if args["form"] == "ts":
            return [op(X[0], torch.tensor(c, dtype=torch.float64))]
        return [op(torch.tensor(c, dtype=torch.float64), X[0])]
    if name in ("neg", "F.neg"):
        return [-X[0]]
    if name == "matmul":
        return [X[0] @ X[1]]
    if name == "addmm":
        return [X[0] + X[1] @ X[2]]
    if name == "pow":
        return [X[0] ** args["n"]]
    if name == "rpow":
        return [torch.tensor(float(args["base"]), dtype=torch.float64) ** X[0]]
    if name in ("exp", "log", "sqrt"):
        return [getattr(torch, name)(X[0])]
    if name == "clone":
        return [X[0].clone()]
    if name in ("sum", "mean"):
        d = args["dim"]
        if d is None:
            r = getattr(torch, name)(X[0])
            if args["keep"]:
                r = r.reshape((1,) * X[0].ndim)
            return [r]
        return [getattr(torch, name)(X[0], dim=_tuple(d), keepdim=args["keep"])]
    if name in ("max", "min"):
        d = args["dim"]
        if d is None:
            r = getattr(torch, name)(X[0])
            if args["keep"]:
                r = r.reshape((1,) * X[0].ndim)
            return [r]
        return [getattr(torch, name)(X[0], dim=d, keepdim=args["keep"]).values]
    if name == "getitem":
        if "-1)" in args["key"] or "-2)" in args["key"]:
            return None           # negative slice steps: NumPy semantics are the definition, torch has none
        key = _ev(args["key"])

        def conv(k):
            if isinstance(k, (list, np.ndarray)):
                return torch.tensor(np.asarray(k))
            return k
        key = tuple(conv(k) for k in key) if isinstance(key, tuple) else conv(key)
        return [X[0][key]]
    if name == "concat":
        return [torch.cat(X, dim=args["dim"])]
    if name == "stack":
        return [torch.stack(X, dim=args["dim"])]
    if name == "unbind":
        return list(torch.unbind(X[0], dim=args["dim"]))
    if name == "squeeze":
        d = args["dim"]
        if X[0].ndim == 0 and d is not None:
            return None
        return [torch.squeeze(X[0]) if d is None else torch.squeeze(X[0], dim=_tuple(d))]
    if name == "unsqueeze":
        d = args["dim"]
        if isinstance(d, list):
            r = X[0]
            n = X[0].ndim + len(d)
            for p in sorted(x % n for x in d):
                r = r.unsqueeze(p)
            return [r]
        return [X[0].unsqueeze(d)]
    if name == "reshape":
        return [X[0].reshape(tuple(args["shape"]))]
    if name == "movedim":
        return [torch.movedim(X[0], _tuple(args["src"]), _tuple(args["dst"]))]
    if name == "transpose":
        return [X[0].transpose(args["d0"], args["d1"])]
    if name == "flatten":
        return [X[0].flatten()] if args["start"] is None else [X[0].flatten(args["start"], args["end"])]
    if name == "unfold":
        return [X[0].unfold(args["dim"], args["size"], args["step"])]
    # ---- nn
    if name in ("relu", "selu", "tanh", "sigmoid"):
        return [getattr(torch, name)(X[0])]
    if name == "leaky_relu":
        return [TF.leaky_relu(X[0], 0.01 if args["slope"] is None else args["slope"])]
    if name == "softmax":
        return [torch.softmax(X[0], args["dim"])]
    if name == "log_softmax":
        return [torch.log_softmax(X[0], args["dim"])]
    red = args.get("red", "none") if args.get("via") == "M" else "none"
    if name == "mse_loss":
        return [TF.mse_loss(X[0], X[1], reduction=red)]
    if name == "bce_loss":
        return [TF.binary_cross_entropy(X[0], X[1], reduction=red)]
    if name == "bce_with_logits":
        return [TF.binary_cross_entropy_with_logits(X[0], X[1], reduction=red)]
    if name in ("nll_loss", "cross_entropy"):
        y = torch.tensor(args["labels"], dtype=torch.long)
        return [getattr(TF, name)(X[0], y, reduction=red)]
    if name == "linear":
        return [TF.linear(X[0], X[1], X[2] if args["bias"] else None)]
    if name == "conv1d":
        p = args["p"]
        return [TF.conv1d(X[0], X[1], X[2] if args["bias"] else None, stride=args["s"], padding=p, dilation=args["d"])]
    if name == "conv2d":
        p = _tuple(args["p"])
        return [TF.conv2d(X[0], X[1], X[2] if args["bias"] else None, stride=_tuple(args["s"]), padding=p, dilation=_tuple(args["d"]))]
    if name in ("max_pool1d", "avg_pool1d", "max_pool2d", "avg_pool2d"):
        k, s_, p, d = _tuple(args["k"]), _tuple(args["s"]), _tuple(args["p"]), _tuple(args["d"])
        if name.startswith("max"):
            return [getattr(TF, name)(X[0], k, s_, p, d)]
        if d not in (1, (1, 1)):
            return None           # torch's avg_pool has no dilation
        return [getattr(TF, name)(X[0], k, s_, p, count_include_pad=True)]
    if name == "nn_unfold" and "padv" in extra:
        # torch pads with zeros only: pad by hand with the requested value, then unfold without padding
        ph, pw = _tuple(args["p"]) if isinstance(_tuple(args["p"]), tuple) else (args["p"], args["p"])
        xp = TF.pad(X[0], (pw, pw, ph, ph), value=float(extra["padv"]))
        return [TF.unfold(xp, _tuple(args["k"]), dilation=_tuple(args["d"]), padding=0, stride=_tuple(args["s"]))]
    if name == "nn_unfold":
        return [TF.unfold(X[0], _tuple(args["k"]), dilation=_tuple(args["d"]), padding=_tuple(args["p"]), stride=_tuple(args["s"]))]
    if name == "nn_fold":
        return [TF.fold(X[0], (args["H"], args["W"]), _tuple(args["k"]), dilation=_tuple(args["d"]), padding=_tuple(args["p"]),
                        stride=_tuple(args["s"]))]
    if name == "batch_norm":
        i = 1
        g = b = rm = rv = None
        if args["affine"]:
            g, b = X[1], X[2]
            i = 3
        if args["track"]:
            rm, rv = X[i].clone(), X[i + 1].clone()
        return [TF.batch_norm(X[0], rm, rv, g, b, training=args["training"] or not args["track"], momentum=extra["mom"], eps=extra["eps"])]
    return None


def check_catalogue(reg, tier, seed=0, limit=None):
    """-> dict(checked=..., mismatches=[...], unmapped=[...])"""
    from .symnum import engine as E
    rnd = random.Random(1000 + seed)
    checked, unmapped, mism = 0, set(), []
    for name, od in reg.items():
        cfgs = od.configs(tier)
        if limit and len(cfgs) > limit:
            cfgs = rnd.sample(cfgs, limit)
        for args in cfgs:
            if args.get("via") in ("M", "Neuron") and name not in ("mse_loss", "bce_loss", "bce_with_logits", "nll_loss", "cross_entropy"):
                continue
            if isinstance(args.get("p"), str):
                continue
            if od.may_reject(args):
                continue          # extensions beyond what torch accepts ("reject or be right"): nothing to compare with
            env = E.Env("plain64", point={}, rng=random.Random(rnd.random()))
            env.autosample = True
            try:
                specs = od.inputs(args)
                xs = [np.array(sp.concrete) if sp.concrete is not None else env.arr(sp.label, sp.shape, np.float64, **sp.dom) for sp in specs]
                extra = od.extra(args, env)
                ref = od.reference(args, xs, extra)
            except Exception as e:  # noqa: BLE001
                mism.append({"op": name, "args": args, "why": "reference raised %r" % (e,)})
                continue
            if ref is None:
                continue
            try:
                tv = torch_value(name, args, xs, extra)
            except Exception as e:  # noqa: BLE001
                mism.append({"op": name, "args": args, "why": "torch rejected a configuration the catalogue calls legal: %r" % (e,)})
                continue
            if tv is None:
                unmapped.add(name)
                continue
            refs = ref if isinstance(ref, (list, tuple)) else [ref]
            checked += 1
            if len(refs) != len(tv):
                mism.append({"op": name, "args": args, "why": "%d outputs vs torch %d" % (len(refs), len(tv))})
                continue
            for r, t in zip(refs, tv):
                r = np.array(r, dtype=np.float64)
                t = t.detach().numpy()
                if r.shape != t.shape:
                    mism.append({"op": name, "args": args, "why": "shape %s vs torch %s" % (r.shape, t.shape)})
                    break
                if not np.allclose(r, t, rtol=1e-9, atol=1e-9):
                    mism.append({"op": name, "args": args, "why": "values differ from torch (max %.3g)" % float(np.max(np.abs(r - t)))})
                    break
    return {"checked": checked, "mismatches": mism[:10], "n_mismatches": len(mism), "unmapped_ops": sorted(unmapped)}
