"""SymArray: a real ``np.ndarray`` subclass with object storage (elements are ``S``) and a nominal dtype,
plus the ``np`` proxy that is rebound inside the synapgrad modules.

NumPy's own C code does all data movement (views, strides, fancy indexing, add.at, tensordot, pad ...);
only element arithmetic reaches ``S``.
"""
from __future__ import annotations

import sys
import types

import numpy as _np

from . import scalar as sc
from .scalar import S, Unsupported, const, lift, CTX

np = _np  # the real numpy


# --------------------------------------------------------------------------- helpers
def _is_float_dt(dt):
    return _np.dtype(dt).kind == "f"


def unwrap(x):
    if isinstance(x, SymArray):
        return x.view(_np.ndarray)
    if isinstance(x, (list, tuple)):
        return type(x)(unwrap(i) for i in x)
    return x


def nominal_dummy(x):
    """zero-size stand-in carrying the nominal dtype, for NumPy's own promotion rules."""
    if isinstance(x, SymArray):
        return _np.zeros((0,) * min(x.ndim, 1), x._nd)
    if isinstance(x, _np.ndarray):
        if x.dtype == object:
            return _np.zeros((0,) * min(x.ndim, 1), _np.float64)
        return _np.zeros((0,) * min(x.ndim, 1), x.dtype)
    if isinstance(x, S):
        return _np.zeros((), x.nd)[()] if x.nd is not None else 0.0
    if isinstance(x, (list, tuple)):
        return _np.zeros((0,), _np.result_type(*[nominal_dummy(i) for i in x])) if len(x) else _np.zeros((0,))
    return x


def lift_elements(r):
    """make every element of object array r an S (NumPy injects raw ints/floats via pad, maximum(0, a) ...)."""
    if r.dtype != object:
        return r
    flat = r.reshape(-1) if r.flags["C_CONTIGUOUS"] and r.flags["WRITEABLE"] else None
    if flat is not None and _np.shares_memory(flat, r):
        for i, v in enumerate(flat):
            if not isinstance(v, S):
                flat[i] = S(const(v))
        return r
    it = _np.ndindex(*r.shape)
    need = False
    for idx in it:
        if not isinstance(r[idx], S):
            need = True
            break
    if not need:
        return r
    if not r.flags["WRITEABLE"]:
        r = r.copy()
    for idx in _np.ndindex(*r.shape):
        v = r[idx]
        if not isinstance(v, S):
            r[idx] = S(const(v))
    return r


def wrap(r, nd):
    """wrap whatever a real NumPy call returned."""
    if isinstance(r, _np.ndarray):
        if r.dtype == object:
            nd = _np.dtype(nd)
            if not _is_float_dt(nd):
                # an integer/bool nominal result whose elements are constants can be concretised
                return concretize(r, nd)
            r = lift_elements(r)
            o = r.view(SymArray)
            o._nd = nd
            return o
        return r
    if isinstance(r, S):
        return S(r.n, _np.dtype(nd))
    if isinstance(r, (int, float, _np.integer, _np.floating)) and not isinstance(r, (bool, _np.bool_)) and _is_float_dt(_np.dtype(nd)):
        # a 0-d object-array operation handed back the raw Python number it picked (np.maximum(0, a) on a 0-d array): NumPy
        # proper would have returned a scalar of the result dtype
        return S(const(r), _np.dtype(nd))
    return r


def concretize(objarr, dt):
    """cast to a non-float dtype.  Constants are converted; a symbolic value cast to an integer dtype is truncated
    towards zero concolically (the cast outcome k is fixed by the model and k <= x < k+1, resp. k-1 < x <= k, joins the
    path condition), so that the explorer enumerates the other outcomes."""
    out = _np.empty(objarr.shape, dtype=dt)
    for idx in _np.ndindex(*objarr.shape):
        v = objarr[idx]
        if isinstance(v, S):
            if sc.isc(v.n):
                v = v.n.val
                v = int(v) if v.denominator == 1 else (int(v) if _np.dtype(dt).kind in "iu" else float(v))
            elif _np.dtype(dt).kind in "iu":
                v = _trunc(v.n)
            else:
                raise Unsupported("symbolic value cast to %s" % dt)
        out[idx] = v
    return out


def _trunc(n):
    import math
    val = sc.evalf(n)
    if val != val or abs(val) == float("inf"):
        raise Unsupported("integer cast of an undefined value")
    k = math.trunc(val)
    if val >= 0:
        sc.record_pc(sc.sub(n, const(k)), ">" if val > k else ("==" if CTX.allow_ties else "tie"))
        sc.record_pc(sc.sub(n, const(k + 1)), "<")
    else:
        sc.record_pc(sc.sub(n, const(k)), "<" if val < k else ("==" if CTX.allow_ties else "tie"))
        sc.record_pc(sc.sub(n, const(k - 1)), ">")
    return k


def scalar_to_array(s, nd=None):
    o = _np.empty((), dtype=object)
    o[()] = s if isinstance(s, S) else S(const(s))
    o = o.view(SymArray)
    o._nd = _np.dtype(nd if nd is not None else (s.nd if isinstance(s, S) and s.nd is not None else _np.float64))
    return o


def from_values(values, dtype):
    """constant SymArray holding the given concrete values."""
    base = _np.asarray(values, dtype=dtype)
    o = _np.empty(base.shape, dtype=object)
    for idx in _np.ndindex(*base.shape):
        o[idx] = S(const(base[idx]))
    o = o.view(SymArray)
    o._nd = base.dtype
    return o


def sym_array(prefix, shape, dtype=_np.float32, **varkw):
    o = _np.empty(shape, dtype=object)
    flat = varkw.get("kind") == "rng"     # a draw is a stream of values filled in C order: the k-th value has one name
    for k, idx in enumerate(_np.ndindex(*shape)):   # whatever shape it was asked for (rand(6).reshape(2, 3) == rand(2, 3))
        name = (prefix + "_f%d" % k) if flat else prefix + "".join("_%d" % i for i in idx)
        o[idx] = S(sc.var(name, **varkw))
        if name not in CTX.model:
            CTX.model[name] = CTX.sampler(name, varkw) if getattr(CTX, "sampler", None) else 0.5
    o = o.view(SymArray)
    o._nd = _np.dtype(dtype)
    return o


class _DataDummy:
    """stands for ``ndarray.data`` (a memoryview): ``ones_like(self.data)`` inside ``Tensor.backward``."""

    def __init__(self, shape, dt):
        self.shape = shape
        self.dtype = dt


_REDUCE_CANON = True


class SymArray(_np.ndarray):
    _nd = _np.dtype("float64")

    def __array_finalize__(self, obj):
        if obj is not None:
            self._nd = getattr(obj, "_nd", _np.dtype("float64"))

    # the nominal dtype is what Python-level code sees -----------------------------------------
    @property
    def dtype(self):
        return self._nd

    @property
    def data(self):
        return _DataDummy(self.shape, self._nd)

    def astype(self, dtype=None, *a, **k):
        dtype = _np.dtype(dtype)
        if not _is_float_dt(dtype):
            return concretize(self.view(_np.ndarray), dtype)
        if k.get("copy", True) is False and dtype == self._nd:
            return self             # NumPy hands back the very same array: aliasing matters to the code under test
        o = self.view(_np.ndarray).copy().view(SymArray)
        o._nd = dtype
        if dtype == _np.float32 and self._nd != _np.float32:
            # rounding is not modelled for symbolic values, but a *constant* cast to single precision is the float32 it
            # becomes (np.full(shape, 0.1).astype(float32) holds 0.100000001490116...)
            raw = o.view(_np.ndarray)
            for idx in _np.ndindex(*raw.shape):
                e = raw[idx]
                if isinstance(e, S) and e.n.op == "const":
                    raw[idx] = S(const(float(_np.float32(float(e.n.val)))), dtype)
        return o

    def __getitem__(self, key):
        r = _np.ndarray.__getitem__(self, unwrap(key) if isinstance(key, tuple) else key)
        if isinstance(r, S):
            return S(r.n, self._nd)
        if isinstance(r, _np.ndarray) and not isinstance(r, SymArray):
            r = r.view(SymArray)
            r._nd = self._nd
        return r

    def __setitem__(self, key, value):
        if isinstance(value, _np.ndarray) and not isinstance(value, SymArray) and value.dtype != object:
            v2 = _np.empty(value.shape, dtype=object)
            for idx in _np.ndindex(*value.shape):
                v2[idx] = S(const(value[idx]))
            value = v2
        elif isinstance(value, SymArray):
            value = value.view(_np.ndarray)
        elif not isinstance(value, (_np.ndarray, S)):
            if isinstance(value, (list, tuple)):
                value = from_values(value, _np.float64).view(_np.ndarray)
            else:
                value = S(const(value))
        _np.ndarray.__setitem__(self.view(_np.ndarray), unwrap(key) if isinstance(key, tuple) else key, value)

    def mean(self, axis=None, dtype=None, out=None, keepdims=False, **kw):
        return _h_mean(self, axis, dtype, out, keepdims, **kw)

    def var(self, axis=None, dtype=None, out=None, ddof=0, keepdims=False, **kw):
        return _h_var(self, axis, dtype, out, ddof, keepdims, **kw)

    def item(self, *a):
        r = _np.ndarray.item(self.view(_np.ndarray), *a)
        return S(r.n, self._nd) if isinstance(r, S) else r

    def tolist(self):
        return self.view(_np.ndarray).tolist()

    def __float__(self):
        if self.size != 1:
            raise TypeError("only size-1 arrays can be converted")
        return float(self.view(_np.ndarray).reshape(-1)[0])

    def __bool__(self):
        if self.size != 1:
            raise ValueError("truth value of an array with more than one element is ambiguous")
        return bool(self.view(_np.ndarray).reshape(-1)[0])

    def __reduce__(self):
        raise Unsupported("pickling a symbolic array")

    def __deepcopy__(self, memo):
        o = self.view(_np.ndarray).copy().view(SymArray)
        o._nd = self._nd
        return o

    # ------------------------------------------------------------------------------------------
    def __array_ufunc__(self, ufunc, method, *inputs, out=None, **kw):
        ins = [unwrap(i) for i in inputs]
        # nominal result dtype through NumPy's own promotion on zero-size dummies
        try:
          with _np.errstate(all="ignore"):
            if method == "__call__":
                res = ufunc(*[nominal_dummy(i) for i in inputs])
                nd = res[0].dtype if isinstance(res, tuple) else res.dtype
            elif method in ("reduce", "accumulate", "reduceat", "at"):
                nd = inputs[0]._nd if isinstance(inputs[0], SymArray) else _np.dtype(_np.float64)
                if ufunc in (_np.logical_and, _np.logical_or):
                    nd = _np.dtype(bool)
            else:
                nd = _np.result_type(*[nominal_dummy(i) for i in inputs])
        except Exception:
            nd = _np.dtype(_np.float64)
        kw.pop("subok", None)
        if "where" in kw and kw["where"] is True:
            kw.pop("where")
        if "dtype" in kw and kw["dtype"] is not None:
            try:
                nd = _np.dtype(kw["dtype"])
            except TypeError:
                pass
            kw.pop("dtype")
        elif "dtype" in kw:
            kw.pop("dtype")
        if method == "at":
            getattr(ufunc, method)(*ins, **kw)
            lift_elements(ins[0])
            return None
        if method == "__call__" and ufunc in (_np.isinf, _np.isnan, _np.isfinite, _np.signbit) and out is None:
            # classification of values: every symbolic value is a finite real, except the IEEE specials of the extended-real mode
            a = ins[0]
            r = _np.empty(_np.shape(a), dtype=bool)
            for idx in _np.ndindex(*r.shape):
                v = a[idx] if _np.ndim(a) else a
                v = v[()] if isinstance(v, _np.ndarray) else v
                op = v.n.op if isinstance(v, S) else ("nan" if v != v else ("inf" if v in (float("inf"), float("-inf")) else "const"))
                if ufunc is _np.isinf:
                    r[idx] = op == "inf"
                elif ufunc is _np.isnan:
                    r[idx] = op == "nan"
                elif ufunc is _np.isfinite:
                    r[idx] = op not in ("inf", "nan")
                else:
                    if op == "nan":
                        raise Unsupported("signbit of nan")
                    r[idx] = bool(v < 0)
            return r if r.shape else bool(r)
        if method == "__call__" and ufunc is _np.logaddexp and out is None and len(ins) == 2:
            # no object loop in NumPy: log(e^a + e^b) in its stable arrangement max + log(1 + e^(min - max)), elementwise
            A, B = (_obj_operand(i) for i in ins)
            mx, mn = _np.maximum(A, B), _np.minimum(A, B)
            r = mx + _np.log(1 + _np.exp(mn - mx))
            return wrap(r, nd)
        if method == "reduce" and _REDUCE_CANON and ufunc in (_np.maximum, _np.minimum) and out is None \
                and "where" not in kw and "initial" not in kw:
            axis = kw.get("axis", 0)
            keep = kw.get("keepdims", False)
            r = _canon_reduce(ins[0], axis, keep, False, ufunc is _np.maximum)
            return wrap(r, nd)
        if out is not None:
            outs = tuple(unwrap(o) for o in out)
            ins = [_obj_operand(i) for i in ins]
            getattr(ufunc, method)(*ins, out=outs if len(outs) > 1 else outs[0], **kw)
            for o in out:
                if isinstance(o, SymArray):
                    lift_elements(unwrap(o))
            return out[0] if len(out) == 1 else out
        ins = [_obj_operand(i) for i in ins]
        r = getattr(ufunc, method)(*ins, **kw)
        if isinstance(r, tuple):
            return tuple(wrap(i, nd) for i in r)
        if isinstance(r, _np.ndarray) and r.dtype != object:
            return r  # comparison results etc.: real bool arrays
        return wrap(r, nd)

    def __array_function__(self, func, types, args, kwargs):
        h = _FUNC_HANDLERS.get(func)
        if h is not None:
            return h(*args, **kwargs)
        nds = []

        def scan(x):
            if isinstance(x, SymArray):
                nds.append(x._nd)
            elif isinstance(x, (list, tuple)):
                for i in x:
                    scan(i)
        scan(args)
        scan(tuple(kwargs.values()))
        r = func(*unwrap(args), **{k: unwrap(v) for k, v in kwargs.items()})
        nd = _np.result_type(*nds) if nds else _np.dtype("float64")
        if isinstance(r, (list, tuple)):
            return type(r)(wrap(i, nd) for i in r)
        if isinstance(r, _np.ndarray) and r.dtype != object and _is_float_dt(r.dtype):
            raise Unsupported("NumPy function %s turned a symbolic array into floats" % getattr(func, "__name__", func))
        return wrap(r, nd)


def _obj_operand(x):
    """float ndarray operands of an object-dtype ufunc call are fine; leave them."""
    return x


# --------------------------------------------------------------------------- canonical max/min/argmax/argmin
def _pick(vec, is_max):
    """index of the winner among the S elements of vec under the current model; records the canonical
    constraint set  winner - other_j > 0  (ties are outside every claim)."""
    nodes = [lift(v) for v in vec]
    vals = [sc.evalf(n) if n.op != "inf" else float("inf") * n.val for n in nodes]
    for v in vals:
        if v != v:
            raise Unsupported("max/min over an undefined value")
    k = int(_np.argmax(vals) if is_max else _np.argmin(vals))
    CTX.n_compare += len(nodes) - 1
    for j, n in enumerate(nodes):
        if j == k:
            continue
        if n.op == "inf" or nodes[k].op == "inf":
            continue
        hi, lo = (nodes[k], n) if is_max else (n, nodes[k])          # hi > lo is the fact to record
        v = vals[k] - vals[j] if is_max else vals[j] - vals[k]
        # one orientation per unordered pair, so that different winners branch on the same comparison terms
        if hi.id <= lo.id:
            d, rel = sc.sub(hi, lo), ">"
        else:
            d, rel = sc.sub(lo, hi), "<"
        if sc.isc(d):
            continue
        sc.record_pc(d, rel if v > 0 else ("==" if CTX.allow_ties else "tie"))
    return k


def _canon_reduce(a, axis, keepdims, want_index, is_max):
    a = unwrap(a)
    if isinstance(axis, tuple) and len(axis) == 1:
        axis = axis[0]
    if a.size == 0:
        raise ValueError("zero-size array to reduction operation which has no identity")
    if axis is None or (isinstance(axis, tuple) and sorted(x % a.ndim for x in axis) == list(range(a.ndim))):
        flat = a.reshape(-1)
        k = _pick(flat, is_max)
        if want_index:
            return _np.array(k).reshape((1,) * a.ndim) if keepdims else _np.int64(k)
        r = flat[k]
        if keepdims:
            o = _np.empty((1,) * a.ndim, dtype=object)
            o.reshape(-1)[0] = r
            return o
        return r
    if isinstance(axis, tuple):
        if want_index:
            raise TypeError("'tuple' object cannot be interpreted as an integer")
        axes = sorted(x % a.ndim for x in axis)
        if len(set(axes)) != len(axes):
            raise ValueError("duplicate value in 'axis'")
        moved = _np.moveaxis(a, axes, list(range(a.ndim - len(axes), a.ndim)))
        moved = moved.reshape(moved.shape[: a.ndim - len(axes)] + (-1,))
        val = _np.empty(moved.shape[:-1], dtype=object)
        for i in _np.ndindex(*moved.shape[:-1]):
            val[i] = moved[i][_pick(moved[i], is_max)]
        if keepdims:
            for ax in axes:
                val = _np.expand_dims(val, ax)
        return val
    if not isinstance(axis, (int, _np.integer)):
        raise TypeError("axis must be an int")
    if not -a.ndim <= axis < a.ndim:
        raise _np.exceptions.AxisError(axis, a.ndim)
    ax = axis % a.ndim
    moved = _np.moveaxis(a, ax, -1)
    out_shape = moved.shape[:-1]
    idx = _np.empty(out_shape, dtype=_np.int64)
    val = _np.empty(out_shape, dtype=object)
    for i in _np.ndindex(*out_shape):
        k = _pick(moved[i], is_max)
        idx[i] = k
        val[i] = moved[i][k]
    r = idx if want_index else val
    if keepdims:
        r = _np.expand_dims(r, ax)
    if r.ndim == 0:
        r = r[()]
    return r


def _h_argmax(a, axis=None, out=None, *, keepdims=False):
    return _canon_reduce(a, axis, keepdims, True, True)


def _h_argmin(a, axis=None, out=None, *, keepdims=False):
    return _canon_reduce(a, axis, keepdims, True, False)


def _h_max(a, axis=None, out=None, keepdims=False, **kw):
    if out is not None or kw:
        raise Unsupported("np.max options %s" % sorted(kw))
    return wrap(_canon_reduce(a, axis, bool(keepdims), False, True), a._nd)


def _h_min(a, axis=None, out=None, keepdims=False, **kw):
    if out is not None or kw:
        raise Unsupported("np.min options %s" % sorted(kw))
    return wrap(_canon_reduce(a, axis, bool(keepdims), False, False), a._nd)


def _count(shape, axis):
    if axis is None:
        return int(_np.prod(shape, dtype=int))
    axes = axis if isinstance(axis, tuple) else (axis,)
    n = 1
    for ax in axes:
        n *= shape[ax]
    return n


def _h_mean(a, axis=None, dtype=None, out=None, keepdims=False, **kw):
    """np.mean = add.reduce / count (NumPy's own _mean converts a 0-d result with dtype.type(), which a
    symbolic scalar cannot go through); dtype rules as NumPy: float arrays keep their dtype."""
    if out is not None or kw or dtype is not None:
        raise Unsupported("np.mean options")
    if isinstance(axis, list):
        axis = tuple(axis)
    tot = _np.add.reduce(a, axis=axis, keepdims=bool(keepdims))
    n = _count(a.shape, axis)
    if n == 0:
        raise Unsupported("mean of an empty slice")
    r = tot / n
    return wrap(unwrap(r) if isinstance(r, SymArray) else r, a._nd)


def _h_var(a, axis=None, dtype=None, out=None, ddof=0, keepdims=False, **kw):
    if out is not None or kw or dtype is not None:
        raise Unsupported("np.var options")
    if isinstance(axis, list):
        axis = tuple(axis)
    m = _h_mean(a, axis=axis, keepdims=True)
    d = a - m
    tot = _np.add.reduce(d * d, axis=axis, keepdims=bool(keepdims))
    n = _count(a.shape, axis) - ddof
    r = tot / n
    return wrap(unwrap(r) if isinstance(r, SymArray) else r, a._nd)


def _h_zeros_like(a, dtype=None, order="K", subok=True, shape=None, **kw):
    nd = _np.dtype(dtype) if dtype is not None else a.dtype
    shp = a.shape if shape is None else shape
    return _const_array(_np.zeros(shp, dtype=nd))


def _h_ones_like(a, dtype=None, order="K", subok=True, shape=None, **kw):
    nd = _np.dtype(dtype) if dtype is not None else a.dtype
    shp = a.shape if shape is None else shape
    return _const_array(_np.ones(shp, dtype=nd))


def _h_empty_like(a, dtype=None, order="K", subok=True, shape=None, **kw):
    return _h_zeros_like(a, dtype, order, subok, shape)


def _h_shares_memory(a, b, max_work=None):
    return _np.shares_memory(unwrap(a), unwrap(b))


def _h_may_share_memory(a, b, max_work=None):
    return _np.may_share_memory(unwrap(a), unwrap(b))


def _h_where(cond, x=None, y=None):
    if x is None and y is None:
        return _np.where(unwrap(cond))
    cond = unwrap(cond)
    if isinstance(cond, _np.ndarray) and cond.dtype == object:
        raise Unsupported("np.where on a symbolic condition")
    nds = [nominal_dummy(i) for i in (x, y)]
    nd = _np.result_type(*nds)
    r = _np.where(cond, _as_obj(x), _as_obj(y))
    return wrap(r, nd)


def _as_obj(x):
    x = unwrap(x)
    if isinstance(x, _np.ndarray):
        if x.dtype == object:
            return x
        o = _np.empty(x.shape, dtype=object)
        for idx in _np.ndindex(*x.shape):
            o[idx] = S(const(x[idx]))
        return o
    if isinstance(x, S):
        o = _np.empty((), dtype=object)
        o[()] = x
        return o
    o = _np.empty((), dtype=object)
    o[()] = S(const(x))
    return o


def _h_unique(ar, return_index=False, return_inverse=False, return_counts=False, axis=None, **kw):
    if axis is not None or return_index or return_counts:
        raise Unsupported("np.unique options")
    a = unwrap(ar).reshape(-1)
    nodes = [lift(v) for v in a]
    # concolic sort + dedupe: all comparisons go through S
    order = sorted(range(len(nodes)), key=_cmp_key(nodes))
    uniq = []
    inv = [0] * len(nodes)
    for i in order:
        if uniq and S(nodes[uniq[-1]]) == S(nodes[i]):
            inv[i] = len(uniq) - 1
        else:
            uniq.append(i)
            inv[i] = len(uniq) - 1
    u = _np.empty(len(uniq), dtype=object)
    for j, i in enumerate(uniq):
        u[j] = a[i]
    u = wrap(u, ar._nd)
    if return_inverse:
        return u, _np.array(inv, dtype=_np.intp).reshape(_np.shape(ar))
    return u


def _cmp_key(nodes):
    import functools

    def cmp(i, j):
        if S(nodes[i]) < S(nodes[j]):
            return -1
        if S(nodes[i]) > S(nodes[j]):
            return 1
        return 0
    return functools.cmp_to_key(cmp)


def _h_array_equal(a1, a2, equal_nan=False):
    a1, a2 = unwrap(a1), unwrap(a2)
    if _np.shape(a1) != _np.shape(a2):
        return False
    return bool(_np.all(_np.equal(_as_obj(a1), _as_obj(a2))))


def _h_isneginf(x, out=None):
    return _np.logical_and(_np.isinf(x), _np.signbit(x) if _np.any(_np.isinf(x)) else False)


def _h_isposinf(x, out=None):
    return _np.logical_and(_np.isinf(x), _np.logical_not(_np.signbit(x)) if _np.any(_np.isinf(x)) else False)


def _h_nan_to_num(x, copy=True, nan=0.0, posinf=None, neginf=None):
    if _np.any(_np.isnan(x)) or _np.any(_np.isinf(x)):
        raise Unsupported("np.nan_to_num on an IEEE special value")
    return x.copy() if copy else x


_FUNC_HANDLERS = {
    _np.isneginf: _h_isneginf,
    _np.isposinf: _h_isposinf,
    _np.nan_to_num: _h_nan_to_num,
    _np.mean: _h_mean,
    _np.var: _h_var,
    _np.max: _h_max,
    _np.amax: _h_max,
    _np.min: _h_min,
    _np.amin: _h_min,
    _np.argmax: _h_argmax,
    _np.argmin: _h_argmin,
    _np.zeros_like: _h_zeros_like,
    _np.ones_like: _h_ones_like,
    _np.empty_like: _h_empty_like,
    _np.shares_memory: _h_shares_memory,
    _np.may_share_memory: _h_may_share_memory,
    _np.where: _h_where,
    _np.unique: _h_unique,
    _np.array_equal: _h_array_equal,
}


# --------------------------------------------------------------------------- creators
def _const_array(base):
    """what np.zeros/ones/... return inside the synapgrad modules: floats become constant SymArrays."""
    if isinstance(base, _np.ndarray) and _is_float_dt(base.dtype):
        return from_values(base, base.dtype)
    return base


def _contains_sym(x):
    if isinstance(x, (S, SymArray)):
        return True
    if isinstance(x, _np.ndarray):
        return x.dtype == object and any(isinstance(v, S) for v in x.reshape(-1))
    if isinstance(x, (list, tuple)):
        return any(_contains_sym(i) for i in x)
    return False


def _to_symarray(x, dtype):
    """np.array(x, dtype) for x containing symbolic values."""
    if isinstance(x, SymArray):
        if dtype is None or _np.dtype(dtype) == x._nd:
            o = x.view(_np.ndarray).copy().view(SymArray)
            o._nd = x._nd
            return o
        return x.astype(dtype)
    if isinstance(x, S):
        nd = dtype if dtype is not None else (x.nd if x.nd is not None else _np.float64)
        if isinstance(nd, sc.FakeDType):
            nd = nd.nd
        if not _is_float_dt(nd):
            o = _np.empty((), dtype=object)
            o[()] = x
            return concretize(o, _np.dtype(nd))
        return scalar_to_array(x, nd)
    if isinstance(x, _np.ndarray):  # plain object array holding S
        o = lift_elements(x.copy()).view(SymArray)
        o._nd = _np.dtype(dtype) if dtype is not None else _np.dtype(_np.float64)
        return o
    # nested lists / tuples
    parts = [_to_symarray(i, None) if _contains_sym(i) else _np.asarray(i) for i in x]
    nds = [p._nd if isinstance(p, SymArray) else p.dtype for p in parts]
    objs = [_as_obj(p) for p in parts]
    o = _np.stack(objs).view(SymArray)
    o._nd = _np.dtype(dtype) if dtype is not None else _np.result_type(*nds)
    return o


class _RandomStub:
    """nondeterministic stubs for np.random inside synapgrad: every draw is a fresh symbolic variable
    constrained only by the generator's documented contract."""

    def __init__(self, real):
        self._r = real
        self.n = 0
        self.draws = []     # (kind, params, array) for the harness to inspect

    def _fresh(self, kind, shape, dtype=_np.float64, **varkw):
        self.n += 1
        a = sym_array("rng%d_%s" % (self.n, kind), tuple(shape), dtype, kind="rng", **varkw)
        return a

    def rand(self, *shape):
        a = self._fresh("u", shape, lo=0, hi=1, hi_strict=True)
        self.draws.append(("rand", (0, 1), a))
        return a if shape else a[()]

    def random(self, size=None):
        shape = () if size is None else (tuple(size) if isinstance(size, (tuple, list)) else (size,))
        return self.rand(*shape)

    def random_sample(self, size=None):
        return self.random(size)

    ranf = sample = random_sample

    def uniform(self, low=0.0, high=1.0, size=None):
        shape = () if size is None else (tuple(size) if isinstance(size, (tuple, list)) else (size,))
        u = self._fresh("u", shape, lo=0, hi=1, hi_strict=True)
        lo, hi = _as_operand(low), _as_operand(high)
        a = lo + (hi - lo) * u
        self.draws.append(("uniform", (low, high), a, u))
        return a if shape else a[()]

    def randn(self, *shape):
        a = self._fresh("z", shape, lo=-4, hi=4)
        self.draws.append(("randn", (0, 1), a))
        return a if shape else a[()]

    def normal(self, loc=0.0, scale=1.0, size=None):
        shape = () if size is None else (tuple(size) if isinstance(size, (tuple, list)) else (size,))
        z = self._fresh("z", shape, lo=-4, hi=4)
        a = _as_operand(loc) + _as_operand(scale) * z
        self.draws.append(("normal", (loc, scale), a, z))
        return a if shape else a[()]

    def standard_normal(self, size=None):
        shape = () if size is None else (tuple(size) if isinstance(size, (tuple, list)) else (size,))
        return self.randn(*shape)

    def randint(self, low, high=None, size=None, dtype=int):
        raise Unsupported("np.random.randint under the symbolic shim")

    def shuffle(self, x):
        perm = CTX.rng_perm(len(x)) if getattr(CTX, "rng_perm", None) else list(range(len(x)))
        self.draws.append(("shuffle", tuple(perm), None))
        if isinstance(x, list):
            x[:] = [x[i] for i in perm]
        else:
            x[:] = x[list(perm)]

    def permutation(self, x):
        n = x if isinstance(x, int) else len(x)
        perm = CTX.rng_perm(n) if hasattr(CTX, "rng_perm") and CTX.rng_perm else list(range(n))
        self.draws.append(("permutation", tuple(perm), None))
        return _np.array(perm) if isinstance(x, int) else x[list(perm)]

    def seed(self, s=None):
        self.draws.append(("seed", s, None))

    def __getattr__(self, k):
        raise Unsupported("np.random.%s under the symbolic shim" % k)


def _as_operand(v):
    if isinstance(v, (S, SymArray)):
        return v
    return S(const(v))


class OutOfBoundsView(Exception):
    """the code under test built a strided view that reaches outside the buffer it was given.  On float arrays
    NumPy would silently read foreign memory; on object arrays that is an interpreter crash, so it is stopped
    here and reported (the candidate is then replayed on the plain code)."""


def _check_bounds(x, shape, strides):
    raw = x.view(_np.ndarray)
    base = raw
    while isinstance(base.base, _np.ndarray):
        base = base.base
    lo, hi = _np.lib.array_utils.byte_bounds(base)
    start = raw.__array_interface__["data"][0]
    shape = raw.shape if shape is None else tuple(shape)
    strides = raw.strides if strides is None else tuple(strides)
    if any(int(n) == 0 for n in shape):
        return
    mn = start + sum((int(n) - 1) * int(st) for n, st in zip(shape, strides) if st < 0)
    mx = start + sum((int(n) - 1) * int(st) for n, st in zip(shape, strides) if st > 0) + raw.itemsize
    if mn < lo or mx > hi:
        raise OutOfBoundsView("as_strided(shape=%s, strides=%s) reaches %d bytes outside a buffer of %d bytes" % (
            shape, strides, max(lo - mn, mx - hi), hi - lo))


class _StrideTricks:
    def __init__(self, real):
        self._r = real

    def as_strided(self, x, shape=None, strides=None, subok=False, writeable=True):
        if isinstance(x, SymArray):
            _check_bounds(x, shape, strides)
            r = self._r.as_strided(x.view(_np.ndarray), shape=shape, strides=strides, writeable=writeable)
            o = r.view(SymArray)
            o._nd = x._nd
            return o
        return self._r.as_strided(x, shape=shape, strides=strides, subok=subok, writeable=writeable)

    def __getattr__(self, k):
        return getattr(self._r, k)


class _Lib:
    def __init__(self, real):
        self._r = real
        self.stride_tricks = _StrideTricks(real.stride_tricks)

    def __getattr__(self, k):
        return getattr(self._r, k)


class NPProxy:
    """What the name ``np`` is bound to inside the synapgrad modules during a symbolic run."""

    def __init__(self):
        self.random = _RandomStub(_np.random)
        self.lib = _Lib(_np.lib)

    def __getattr__(self, k):
        return getattr(_np, k)

    # creators --------------------------------------------------------------------------------
    def zeros(self, shape, dtype=float, order="C", **kw):
        return _const_array(_np.zeros(shape, dtype=dtype))

    def ones(self, shape, dtype=None, order="C", **kw):
        return _const_array(_np.ones(shape, dtype=dtype))

    def empty(self, shape, dtype=float, order="C", **kw):
        # uninitialised memory is modelled as zeros (documented stub)
        return _const_array(_np.zeros(shape, dtype=dtype))

    def full(self, shape, fill_value, dtype=None, order="C", **kw):
        if _contains_sym(fill_value):
            o = _np.empty(shape, dtype=object)
            o[...] = fill_value if isinstance(fill_value, S) else fill_value[()]
            o = o.view(SymArray)
            o._nd = _np.dtype(dtype) if dtype is not None else _np.dtype(_np.float64)
            return o
        return _const_array(_np.full(shape, fill_value, dtype=dtype))

    def eye(self, N, M=None, k=0, dtype=float, **kw):
        return _const_array(_np.eye(N, M, k, dtype=dtype))

    def arange(self, *a, dtype=None, **kw):
        return _const_array(_np.arange(*a, dtype=dtype, **kw))

    def array(self, x, dtype=None, copy=True, **kw):
        if isinstance(dtype, sc.FakeDType):
            dtype = dtype.nd
        if isinstance(x, SymArray) and copy in (None, False) and (dtype is None or _np.dtype(dtype) == x._nd):
            return x                # no copy needed: NumPy returns the operand itself
        if _contains_sym(x):
            return _to_symarray(x, dtype)
        if isinstance(x, _DataDummy):
            raise Unsupported("np.array of ndarray.data")
        return _const_array(_np.array(x, dtype=dtype, **kw))

    def asarray(self, x, dtype=None, **kw):
        if isinstance(x, SymArray) and (dtype is None or _np.dtype(dtype) == x._nd):
            return x
        if _contains_sym(x):
            return _to_symarray(x, dtype)
        return _const_array(_np.asarray(x, dtype=dtype, **kw))

    def ascontiguousarray(self, x, dtype=None, **kw):
        if isinstance(x, SymArray):
            o = _np.ascontiguousarray(x.view(_np.ndarray)).view(SymArray)
            o._nd = x._nd if dtype is None else _np.dtype(dtype)
            return o
        return _const_array(_np.ascontiguousarray(x, dtype=dtype))

    def zeros_like(self, a, dtype=None, **kw):
        if isinstance(a, _DataDummy):
            return _const_array(_np.zeros(a.shape, dtype=dtype or a.dtype))
        if isinstance(a, SymArray):
            return _h_zeros_like(a, dtype)
        return _const_array(_np.zeros_like(a, dtype=dtype))

    def ones_like(self, a, dtype=None, **kw):
        if isinstance(a, _DataDummy):
            return _const_array(_np.ones(a.shape, dtype=dtype or a.dtype))
        if isinstance(a, SymArray):
            return _h_ones_like(a, dtype)
        return _const_array(_np.ones_like(a, dtype=dtype))

    def issubdtype(self, a, b):
        if a is S:
            a = _np.float64
        if isinstance(a, sc.FakeDType):
            a = a.nd
        return _np.issubdtype(a, b)

    def floor(self, x, *a, **k):
        if isinstance(x, S):
            return x.floor()
        return _np.floor(x, *a, **k)

    def isscalar(self, x):
        return isinstance(x, S) or _np.isscalar(x)

    def result_type(self, *args):
        # promotion is decided on the nominal dtypes (the arrays themselves are object arrays)
        return _np.result_type(*[a.nd if isinstance(a, sc.FakeDType) else nominal_dummy(a) for a in args])

    def promote_types(self, a, b):
        return _np.promote_types(a.nd if isinstance(a, sc.FakeDType) else a, b.nd if isinstance(b, sc.FakeDType) else b)

    def where(self, cond, x=None, y=None):
        # 0-d operands are bare scalars, so NumPy would not dispatch to SymArray by itself
        if x is not None and (_contains_sym(x) or _contains_sym(y)):
            return _h_where(cond, x, y)
        return _np.where(cond) if x is None else _np.where(cond, x, y)


# --------------------------------------------------------------------------- install / uninstall
_TARGETS = [
    "synapgrad.tensor", "synapgrad.cpu_ops", "synapgrad.conv_tools", "synapgrad.utils",
    "synapgrad.nn.functional", "synapgrad.nn.layers", "synapgrad.nn.init", "synapgrad.nn.losses",
    "synapgrad.nn.activations", "synapgrad.nn.modules", "synapgrad.optim.optimizers",
    "synapgrad.nn.utils.data", "synapgrad.nn.utils.train", "synapgrad.functional",
]

PROXY = None


_SAVED = {}      # (module name, attribute) -> the NumPy object the synapgrad module had bound there


def _targets():
    """every loaded synapgrad module (a refactor may add modules; the fixed list is only the minimum)"""
    names = set(_TARGETS) | {n for n in list(sys.modules) if n == "synapgrad" or n.startswith("synapgrad.")}
    return [(n, sys.modules[n]) for n in sorted(names) if sys.modules.get(n) is not None]


def _counterpart(proxy, v, plain):
    """what a NumPy object bound in a synapgrad module is replaced with (None: leave it).  Covers `import numpy as np`,
    `from numpy import random`, `from numpy.lib.stride_tricks import as_strided`, `from numpy.random import rand`,
    `from numpy import zeros` ... - however the module spells its imports."""
    if isinstance(v, (NPProxy, PlainProxy)):
        return proxy
    if isinstance(v, types.ModuleType):
        nm = v.__name__
        if nm == "numpy":
            return proxy
        if nm == "numpy.random":
            return proxy.random
        if not plain and nm == "numpy.lib":
            return proxy.lib
        if not plain and nm == "numpy.lib.stride_tricks":
            return proxy.lib.stride_tricks
        return None
    if not callable(v) or isinstance(v, (type, _np.ufunc)):
        return None
    if getattr(v, "__self__", None) is _np.random.mtrand._rand:          # from numpy.random import rand, ...
        return getattr(proxy.random, v.__name__)
    if plain:
        return None
    nm = getattr(v, "__name__", None)
    if nm and getattr(_np.lib.stride_tricks, nm, None) is v:
        return getattr(proxy.lib.stride_tricks, nm)
    if nm and getattr(_np, nm, None) is v:
        try:
            r = getattr(proxy, nm)
        except Unsupported:
            return None
        return r if r is not v else None
    return None


def _rebind(proxy, plain):
    for name, m in _targets():
        for attr, v in list(vars(m).items()):
            if attr.startswith("__"):
                continue
            orig = _SAVED.get((name, attr), v)
            if isinstance(v, (NPProxy, PlainProxy, _RandomStub, _PlainRandom, _Lib, _StrideTricks)) or getattr(v, "__self__", None).__class__ in (
                    NPProxy, PlainProxy, _RandomStub, _PlainRandom, _StrideTricks):
                v = orig            # a binding of an earlier install: start from what the module really imported
            try:
                r = _counterpart(proxy, v, plain)
            except Unsupported:
                r = None
            if r is not None:
                _SAVED.setdefault((name, attr), orig)
                setattr(m, attr, r)
            elif (name, attr) in _SAVED:
                setattr(m, attr, _SAVED[(name, attr)])


def install():
    """rebind NumPy (however it was imported) in every synapgrad module; returns the proxy."""
    global PROXY
    PROXY = NPProxy()
    _rebind(PROXY, False)
    return PROXY


def uninstall():
    global PROXY
    PROXY = None
    for (name, attr), orig in list(_SAVED.items()):
        m = sys.modules.get(name)
        if m is not None:
            setattr(m, attr, orig)
    _SAVED.clear()


class _PlainRandom:
    """plain-mode RNG: replays the model values of the symbolic draws, in order (so the un-instrumented
    run sees exactly the point at which the symbolic terms are evaluated)."""

    def __init__(self, feed):
        self.feed = feed    # callable(kind, shape) -> ndarray
        self.n = 0

    def _next(self, kind, shape):
        self.n += 1
        return self.feed("rng%d_%s" % (self.n, kind), tuple(shape))

    def rand(self, *shape):
        a = self._next("u", shape)
        return a if shape else float(a)

    def random(self, size=None):
        shape = () if size is None else (tuple(size) if isinstance(size, (tuple, list)) else (size,))
        return self.rand(*shape)

    def random_sample(self, size=None):
        return self.random(size)

    ranf = sample = random_sample

    def uniform(self, low=0.0, high=1.0, size=None):
        shape = () if size is None else (tuple(size) if isinstance(size, (tuple, list)) else (size,))
        u = self._next("u", shape)
        a = low + (high - low) * u
        return a if shape else float(a)

    def randn(self, *shape):
        a = self._next("z", shape)
        return a if shape else float(a)

    def normal(self, loc=0.0, scale=1.0, size=None):
        shape = () if size is None else (tuple(size) if isinstance(size, (tuple, list)) else (size,))
        z = self._next("z", shape)
        a = loc + scale * z
        return a if shape else float(a)

    def standard_normal(self, size=None):
        shape = () if size is None else (tuple(size) if isinstance(size, (tuple, list)) else (size,))
        return self.randn(*shape)

    def shuffle(self, x):
        perm = CTX.rng_perm(len(x)) if getattr(CTX, "rng_perm", None) else list(range(len(x)))
        if isinstance(x, list):
            x[:] = [x[i] for i in perm]
        else:
            x[:] = x[list(perm)]

    def permutation(self, x):
        n = x if isinstance(x, int) else len(x)
        perm = CTX.rng_perm(n) if getattr(CTX, "rng_perm", None) else list(range(n))
        return _np.array(perm) if isinstance(x, int) else x[list(perm)]

    def seed(self, s=None):
        pass

    def __getattr__(self, k):
        # a generator the stubs do not model: the oracle cannot know the draws, so the plain run is not judged either
        raise Unsupported("np.random.%s in the plain replay" % k)


class PlainProxy:
    """plain mode: the real NumPy, except that np.random replays the symbolic draws' model values."""

    def __init__(self, feed):
        self.random = _PlainRandom(feed)

    def __getattr__(self, k):
        return getattr(_np, k)


def install_plain(feed):
    """only np.random is replaced (wherever the modules bound it)."""
    uninstall()
    p = PlainProxy(feed)
    _rebind(p, True)
    return p
