"""E1 - symbolic execution of the NumPy-level code of synapgrad (see DESIGN.md section 2.1)."""
