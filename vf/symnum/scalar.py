"""Symbolic scalar: hash-consed expression DAG + concolic comparisons.

Every element of a symbolic array is an ``S`` wrapping a ``Node``.  NumPy's object-dtype loops call
the Python operators / ``.exp() .log() .sqrt() .tanh()`` methods defined here, so the *real* kernels of
synapgrad build, for one run, the closed-form term of every output.

Comparisons are concolic: each node also has a float value under the current model (``CTX.model``);
a comparison returns the concrete truth value and appends the sign condition to ``CTX.pc``.
"""
from __future__ import annotations

import math
from fractions import Fraction

import numpy as np


class Unsupported(Exception):
    """The shim cannot model this operation faithfully -> configuration is inconclusive."""


class Node:
    __slots__ = ("op", "args", "val", "id")

    def __init__(self, op, args, val, nid):
        self.op = op
        self.args = args
        self.val = val
        self.id = nid

    def __repr__(self):
        return "N%d:%s" % (self.id, self.op)


class VarInfo:
    __slots__ = ("name", "lo", "hi", "lo_strict", "hi_strict", "kind", "node", "nonzero")

    def __init__(self, name, lo, hi, lo_strict, hi_strict, kind, node, nonzero=False):
        self.name = name
        self.lo = lo
        self.hi = hi
        self.lo_strict = lo_strict
        self.hi_strict = hi_strict
        self.kind = kind
        self.node = node
        self.nonzero = nonzero


class Ctx:
    """All mutable state of the symbolic engine for the case currently being decided."""

    def __init__(self):
        self.reset()

    def reset(self):
        self.cache = {}
        self.nid = 0
        self.model = {}
        self.vars = {}          # name -> VarInfo
        self.pc = []            # [(node, rel)] rel in > < == !=
        self.pc_keys = set()
        self.memo = {}
        self.rewrite = True     # exp/log rewrite rules (off in extended-real mode)
        self.xr = None          # extended-real mode parameters (C09) or None
        self.extra_axioms = []  # [(node, rel)] assumed facts (domain of ops)
        self.n_compare = 0
        self.rng = None
        self.xr_axioms = False
        self.xr_marks = None     # (lo, hi): range of exp landmarks worth instantiating (C09, per dtype)
        self.rng_perm = None     # callable(n) -> permutation used by the np.random.shuffle stub
        self.allow_ties = False  # tie runs: an exactly tied order comparison is recorded as '==' and the run goes on

    def set_model(self, model):
        self.model = dict(model)
        self.memo = {}

    def begin_run(self):
        self.pc = []
        self.pc_keys = set()
        self.extra_axioms = []
        self.memo = {}


CTX = Ctx()


# --------------------------------------------------------------------------- node constructors
def mk(op, args=(), val=None):
    key = (op, tuple(a.id for a in args), val)
    r = CTX.cache.get(key)
    if r is None:
        CTX.nid += 1
        r = CTX.cache[key] = Node(op, args, val, CTX.nid)
    return r


def const(v):
    if isinstance(v, Fraction):
        return mk("const", (), v)
    if isinstance(v, (bool, np.bool_)):
        v = int(v)
    if isinstance(v, (int, np.integer)):
        return mk("const", (), Fraction(int(v)))
    if isinstance(v, (float, np.floating)):
        f = float(v)
        if math.isinf(f):
            return mk("inf", (), 1 if f > 0 else -1)
        if math.isnan(f):
            # a nan *constant* may exist (np.where(mask, nan, x) with an all-false mask); outside the extended-real mode
            # any arithmetic on it, a comparison, or its arrival at the solver is unsupported
            return mk("nan", (), None)
        return mk("const", (), Fraction(f))
    raise Unsupported("cannot lift %r to a symbolic constant" % (type(v),))


def var(name, lo=None, hi=None, lo_strict=False, hi_strict=False, kind="data", nonzero=False):
    n = mk("var", (), name)
    if name not in CTX.vars:
        CTX.vars[name] = VarInfo(name, lo, hi, lo_strict, hi_strict, kind, n, nonzero)
    return n


def isc(n, v=None):
    return n.op == "const" and (v is None or n.val == v)


def _order(a, b):
    return (a, b) if a.id <= b.id else (b, a)


def _is_neg_of(a, b):
    return b.op == "mul" and b.args[0].op == "const" and b.args[0].val == -1 and b.args[1] is a


SPECIAL = ("inf", "nan")


def add(a, b):
    if a.op in SPECIAL or b.op in SPECIAL:
        return _inf_arith("add", a, b)
    if isc(a, 0):
        return b
    if isc(b, 0):
        return a
    if isc(a) and isc(b):
        return const(a.val + b.val)
    if _is_neg_of(a, b) or _is_neg_of(b, a):
        return const(0)
    a, b = _order(a, b)
    return mk("add", (a, b))


def mul(a, b):
    if a.op in SPECIAL or b.op in SPECIAL:
        return _inf_arith("mul", a, b)
    if isc(a, 0) or isc(b, 0):
        return const(0)
    if isc(a, 1):
        return b
    if isc(b, 1):
        return a
    if isc(a) and isc(b):
        return const(a.val * b.val)
    # fold constant factors: c1 * (c2 * x) -> (c1*c2) * x
    if isc(a) and b.op == "mul" and isc(b.args[0]):
        return mul(const(a.val * b.args[0].val), b.args[1])
    if isc(b) and a.op == "mul" and isc(a.args[0]):
        return mul(const(b.val * a.args[0].val), a.args[1])
    if isc(b):
        a, b = b, a
    if not isc(a):
        a, b = _order(a, b)
    return mk("mul", (a, b))


def neg(a):
    if a.op == "nan":
        return a
    if a.op == "inf":
        return mk("inf", (), -a.val)
    return mul(const(-1), a)


def sub(a, b):
    if a is b:
        return const(0)
    return add(a, neg(b))


def div(a, b):
    if a.op in SPECIAL or b.op in SPECIAL:
        return _inf_arith("div", a, b)
    if isc(b, 1):
        return a
    if isc(b) and b.val != 0:
        return mul(const(1 / b.val), a)
    if isc(b, 0):
        if CTX.xr is not None:
            return CTX.xr.div_by_zero(a)
        raise Unsupported("division by the constant 0")
    if isc(a, 0):
        return a
    if a is b:
        return const(1)
    return mk("div", (a, b))


def _inf_arith(op, a, b):
    """IEEE rules for the few inf cases that are value independent; everything else is unsupported
    outside the extended-real mode (vf.symnum.xr installs its own handler)."""
    h = CTX.xr
    if h is not None:
        return h.inf_arith(op, a, b)
    if a.op == "nan" or b.op == "nan":
        raise Unsupported("nan outside the extended-real mode")
    if op == "mul":
        o = b if a.op == "inf" else a
        i = a if a.op == "inf" else b
        if isc(o) and o.val != 0:
            return mk("inf", (), i.val * (1 if o.val > 0 else -1))
    if op == "add":
        o = b if a.op == "inf" else a
        i = a if a.op == "inf" else b
        if o.op != "inf":
            return i
        if o.val == i.val:
            return i
    if op == "div" and a.op != "inf" and b.op == "inf":
        return const(0)
    raise Unsupported("arithmetic on infinity (%s)" % op)


def ipow(b, k):
    if k == 0:
        return const(1)
    r = None
    base = b
    e = abs(k)
    # square-and-multiply keeps the DAG small
    while e:
        if e & 1:
            r = base if r is None else mul(r, base)
        e >>= 1
        if e:
            base = mul(base, base)
    return r if k > 0 else div(const(1), r)


# --------------------------------------------------------------------------- function atoms + rewrites
def linform(n):
    """n -> ({atom_id: (coeff, node)}, const) : n as a rational-linear combination of non-linear nodes."""
    out = {}
    c0 = Fraction(0)
    st = [(n, Fraction(1))]
    while st:
        m, c = st.pop()
        if m.op == "const":
            c0 += c * m.val
        elif m.op == "add":
            st.append((m.args[0], c))
            st.append((m.args[1], c))
        elif m.op == "mul" and m.args[0].op == "const":
            st.append((m.args[1], c * m.args[0].val))
        elif m.op == "mul" and m.args[1].op == "const":
            st.append((m.args[0], c * m.args[1].val))
        else:
            cc, _ = out.get(m.id, (0, m))
            out[m.id] = (cc + c, m)
    return {k: v for k, v in out.items() if v[0] != 0}, c0


def fn(name, a):
    if a.op in SPECIAL:
        if CTX.xr is not None:
            return CTX.xr.fn_special(name, a)
        raise Unsupported("%s of infinity" % name)
    if isc(a):
        if name in ("exp", "tanh") and a.val == 0:
            return const(1 if name == "exp" else 0)
        if name == "log" and a.val == 1:
            return const(0)
        if name == "sqrt":
            if a.val < 0:
                raise Unsupported("sqrt of a negative constant")
            r = _exact_sqrt(a.val)
            if r is not None:
                return const(r)
    if CTX.rewrite:
        if name == "exp":
            lf, c0 = linform(a)
            if lf and all(c.denominator == 1 for c, _ in lf.values()) and (len(lf) > 1 or c0 != 0 or any(
                    c != 1 or t.op == "log" for c, t in lf.values())):
                r = const(1) if c0 == 0 else mk("exp", (const(c0),))
                for c, t in sorted(lf.values(), key=lambda v: v[1].id):
                    base = t.args[0] if t.op == "log" else mk("exp", (t,))
                    r = mul(r, ipow(base, int(c)))
                return r
        if name == "log" and a.op == "exp":
            return a.args[0]
    return mk(name, (a,))


def _exact_sqrt(fr):
    def isq(n):
        r = math.isqrt(n)
        return r if r * r == n else None
    p, q = isq(fr.numerator), isq(fr.denominator)
    if p is None or q is None:
        return None
    return Fraction(p, q)


# --------------------------------------------------------------------------- float evaluation
def evalf(n, model=None, memo=None):
    """Float value of node n under ``model`` (default: the current concolic model)."""
    if model is None:
        model = CTX.model
        memo = CTX.memo
    elif memo is None:
        memo = {}
    r = memo.get(n.id)
    if r is not None:
        return r
    st = [n]
    while st:
        m = st[-1]
        if m.id in memo:
            st.pop()
            continue
        pend = [a for a in m.args if a.id not in memo]
        if pend:
            st.extend(pend)
            continue
        st.pop()
        op = m.op
        if op == "const":
            v = float(m.val)
        elif op == "var":
            v = model[m.val]
        elif op == "inf":
            v = math.inf * m.val
        elif op == "nan":
            v = math.nan
        else:
            x = memo[m.args[0].id]
            try:
                if op == "add":
                    v = x + memo[m.args[1].id]
                elif op == "mul":
                    v = x * memo[m.args[1].id]
                elif op == "div":
                    d = memo[m.args[1].id]
                    v = x / d if d != 0 else math.nan
                elif op == "exp":
                    v = math.exp(x) if x < 700 else math.inf
                elif op == "log":
                    v = math.log(x) if x > 0 else math.nan
                elif op == "sqrt":
                    v = math.sqrt(x) if x >= 0 else math.nan
                elif op == "tanh":
                    v = math.tanh(x)
                else:
                    raise Unsupported("evalf: " + op)
            except (OverflowError, ValueError):
                v = math.nan
        memo[m.id] = v
    return memo[n.id]


# --------------------------------------------------------------------------- the scalar class
def lift(v):
    if isinstance(v, S):
        return v.n
    if isinstance(v, Node):
        return v
    if isinstance(v, np.ndarray) and v.ndim == 0:
        v = v[()]
        if isinstance(v, S):
            return v.n
    return const(v)


class FakeDType:
    """What ``S.dtype`` returns: enough of a dtype for the few places NumPy/synapgrad look at the dtype of
    a 0-d result (``numpy._core._methods._mean`` calls ``ret.dtype.type(ret / n)``)."""

    def __init__(self, nd):
        self.nd = np.dtype(nd)
        self.kind = self.nd.kind
        self.name = self.nd.name
        self.itemsize = self.nd.itemsize

    def type(self, v):
        return S(lift(v), self.nd)

    def __eq__(self, o):
        if isinstance(o, FakeDType):
            return self.nd == o.nd
        try:
            return self.nd == np.dtype(o)
        except TypeError:
            return False

    def __ne__(self, o):
        return not self.__eq__(o)

    def __hash__(self):
        return hash(self.nd)

    def __repr__(self):
        return "nominal(%s)" % self.nd


def _res_nd(a, b):
    an = a.nd if isinstance(a, S) else None
    bn = b.nd if isinstance(b, S) else None
    if an is None:
        return bn
    if bn is None:
        return an
    return np.result_type(an, bn)


def _foreign(o):
    """operands S does not know how to combine with (Tensor, list, str ...): let the other side try"""
    if isinstance(o, (S, int, float, Fraction, np.generic)):
        return False
    if isinstance(o, np.ndarray):
        return True
    return True


class S:
    """Symbolic real scalar; ``nd`` is the nominal NumPy dtype of the value it stands for (or None)."""
    __slots__ = ("n", "nd")
    __array_priority__ = -1.0

    def __init__(self, n, nd=None):
        self.n = n
        self.nd = nd

    # arithmetic --------------------------------------------------------------------------------
    def __add__(self, o):
        if _foreign(o):
            return NotImplemented
        return S(add(self.n, lift(o)), _res_nd(self, o))

    __radd__ = __add__

    def __sub__(self, o):
        if _foreign(o):
            return NotImplemented
        return S(sub(self.n, lift(o)), _res_nd(self, o))

    def __rsub__(self, o):
        if _foreign(o):
            return NotImplemented
        return S(sub(lift(o), self.n), _res_nd(self, o))

    def __mul__(self, o):
        if _foreign(o):
            return NotImplemented
        return S(mul(self.n, lift(o)), _res_nd(self, o))

    __rmul__ = __mul__

    def __truediv__(self, o):
        if _foreign(o):
            return NotImplemented
        return S(div(self.n, lift(o)), _res_nd(self, o))

    def __rtruediv__(self, o):
        if _foreign(o):
            return NotImplemented
        return S(div(lift(o), self.n), _res_nd(self, o))

    def __neg__(self):
        return S(neg(self.n), self.nd)

    def __pos__(self):
        return self

    def __abs__(self):
        return self if CTX_compare(">=", self.n, const(0)) else -self

    def __pow__(self, p, mod=None):
        if _foreign(p):
            return NotImplemented
        if isinstance(p, S):
            if isc(p.n):
                p = p.n.val
            else:
                # x ** y = exp(y * log x)
                return S(fn("exp", mul(p.n, fn("log", self.n))), _res_nd(self, p))
        if isinstance(p, (float, np.floating)):
            p = Fraction(float(p))
        elif isinstance(p, (int, np.integer)):
            p = Fraction(int(p))
        if not isinstance(p, Fraction):
            raise Unsupported("power %r" % (p,))
        if p.denominator == 1:
            return S(ipow(self.n, int(p)), self.nd)
        if p.denominator == 2:
            return S(ipow(fn("sqrt", self.n), int(p.numerator)), self.nd)
        raise Unsupported("fractional power %s" % p)

    def __rpow__(self, b, mod=None):
        if _foreign(b):
            return NotImplemented
        if isinstance(b, S):
            return b.__pow__(self)
        b = float(b)
        if b == 0:
            # 0 ** x: 0 for x > 0, 1 at x == 0 (the comparisons are concolic and recorded in the path condition)
            if self > 0:
                return S(const(0), self.nd)
            if self == 0:
                return S(const(1), self.nd)
            raise Unsupported("0 ** negative")
        if b < 0:
            raise Unsupported("negative base of rpow")
        # n ** x computed by NumPy as exp(x * ln n); ln n is the float the kernels also use
        return S(fn("exp", mul(self.n, const(float(np.log(b))))), self.nd)

    # the method names NumPy's object loops call ------------------------------------------------
    def exp(self):
        if CTX.xr is not None:
            return CTX.xr.exp(self)
        return S(fn("exp", self.n), self.nd)

    def log(self):
        if CTX.xr is not None:
            return CTX.xr.log(self)
        return S(fn("log", self.n), self.nd)

    def sqrt(self):
        if CTX.xr is not None:
            return CTX.xr.sqrt(self)
        return S(fn("sqrt", self.n), self.nd)

    def tanh(self):
        if CTX.xr is not None:
            return CTX.xr.tanh(self)
        return S(fn("tanh", self.n), self.nd)

    # compositions of the above, as NumPy documents them (so that a kernel rewritten with log1p / expm1 / ... stays within reach)
    def log1p(self):
        return (self + 1).log()

    def expm1(self):
        return self.exp() - 1

    def log2(self):
        return self.log() / float(np.log(2.0))

    def log10(self):
        return self.log() / float(np.log(10.0))

    def exp2(self):
        return (self * float(np.log(2.0))).exp()

    def square(self):
        return self * self

    def reciprocal(self):
        return 1 / self

    def sinh(self):
        e = self.exp()
        return (e - 1 / e) / 2

    def cosh(self):
        e = self.exp()
        return (e + 1 / e) / 2

    def fabs(self):
        return abs(self)

    absolute = fabs

    def conjugate(self):
        return self

    def rint(self):
        return S(const(concretize_rint(self)), self.nd)

    def __round__(self, ndigits=None):
        if ndigits not in (None, 0):
            raise Unsupported("round to %r digits" % (ndigits,))
        return concretize_rint(self)

    def __floor__(self):
        return concretize_floor(self)

    def floor(self):
        return concretize_floor(self)

    # comparisons (concolic) ----------------------------------------------------------------------
    def __gt__(self, o):
        if _foreign(o):
            return NotImplemented
        return CTX_compare(">", self.n, lift(o))

    def __ge__(self, o):
        if _foreign(o):
            return NotImplemented
        return CTX_compare(">=", self.n, lift(o))

    def __lt__(self, o):
        if _foreign(o):
            return NotImplemented
        return CTX_compare("<", self.n, lift(o))

    def __le__(self, o):
        if _foreign(o):
            return NotImplemented
        return CTX_compare("<=", self.n, lift(o))

    def __eq__(self, o):
        if _foreign(o):
            return NotImplemented
        try:
            return CTX_compare("==", self.n, lift(o))
        except Unsupported:
            return False

    def __ne__(self, o):
        if _foreign(o):
            return NotImplemented
        try:
            return CTX_compare("!=", self.n, lift(o))
        except Unsupported:
            return True

    def __hash__(self):
        return hash(self.n.id)

    def __bool__(self):
        return CTX_compare("!=", self.n, const(0))

    def __float__(self):
        if isc(self.n):
            return float(self.n.val)
        if self.n.op == "inf":
            return math.inf * self.n.val
        if self.n.op == "nan":
            return math.nan
        raise Unsupported("float() of a symbolic value")

    def __int__(self):
        if isc(self.n) and self.n.val.denominator == 1:
            return int(self.n.val)
        raise Unsupported("int() of a symbolic value")

    __index__ = __int__

    # numpy-scalar surface reached on 0-d results --------------------------------------------------
    shape = ()
    ndim = 0
    size = 1

    @property
    def dtype(self):
        # a real np.dtype (the nominal one): code that asks a 0-d result for its dtype sees what NumPy shows.
        # A symbolic *Python* scalar (nd is None) has no dtype attribute, exactly like a Python float.
        if self.nd is None:
            raise AttributeError("dtype")
        return np.dtype(self.nd)

    def item(self):
        return self

    def copy(self):
        return self

    def squeeze(self, axis=None):
        return self

    def sum(self, *a, **k):
        return self

    def astype(self, dtype, *a, **k):
        return S(self.n, np.dtype(dtype))

    def reshape(self, *shape):
        from .array import scalar_to_array
        return scalar_to_array(self).reshape(*shape)

    def __repr__(self):
        if isc(self.n):
            return "S(%s)" % float(self.n.val)
        return "S#%d" % self.n.id


# --------------------------------------------------------------------------- concolic comparison
def _sign_rel(v):
    # an order comparison that is exactly tied under the model is a kink/tie point: the ordinary runs discard it,
    # the dedicated tie runs (CTX.allow_ties) record the equality and continue exactly as NumPy does
    return ">" if v > 0 else ("<" if v < 0 else ("==" if CTX.allow_ties else "tie"))


def CTX_compare(op, a, b):
    """Concrete truth value of ``a op b`` under the current model; records the sign of a-b."""
    CTX.n_compare += 1
    if a.op == "nan" or b.op == "nan":
        return op == "!="            # IEEE: every ordered comparison with nan is false
    if a.op == "inf" or b.op == "inf":
        va = math.inf * a.val if a.op == "inf" else 0.0
        vb = math.inf * b.val if b.op == "inf" else 0.0
        if a.op == "inf" and b.op == "inf" and a.val == b.val:
            va = vb = 0.0
        d = va - vb
        return {">": d > 0, ">=": d >= 0, "<": d < 0, "<=": d <= 0, "==": d == 0, "!=": d != 0}[op]
    d = sub(a, b)
    if isc(d):
        v = d.val
        return {">": v > 0, ">=": v >= 0, "<": v < 0, "<=": v <= 0, "==": v == 0, "!=": v != 0}[op]
    v = evalf(d)
    if v != v:
        raise Unsupported("comparison of an undefined (nan) value under the current model")
    if op in ("==", "!="):
        rel = "==" if v == 0 else "!="
    else:
        rel = _sign_rel(v)
    record_pc(d, rel)
    return {">": v > 0, ">=": v >= 0, "<": v < 0, "<=": v <= 0, "==": v == 0, "!=": v != 0}[op]


def record_pc(d, rel):
    key = (d.id, rel)
    if key not in CTX.pc_keys:
        CTX.pc_keys.add(key)
        CTX.pc.append((d, rel))


def assume(d, rel):
    """Record a fact that is assumed (op domain), not branched on."""
    CTX.extra_axioms.append((d, rel))


def concretize_floor(s):
    """floor of a symbolic value: concretise to k under the model and record k <= x < k+1."""
    n = s.n
    if isc(n):
        return math.floor(n.val)
    v = evalf(n)
    k = math.floor(v)
    # an exactly integral value is a kink for data, but a legitimate configuration for hyper-parameters
    # (split fraction 1.0, batch fractions ...): there the equality is recorded and explored like any other branch
    vs = node_vars(n)
    hyper = bool(vs) and all(CTX.vars[x].kind == "hyper" for x in vs)
    record_pc(sub(n, const(k)), ">" if v > k else ("==" if (hyper or CTX.allow_ties) else "tie"))
    record_pc(sub(n, const(k + 1)), "<")
    return k


def concretize_rint(s):
    """round-half-to-even of a symbolic value (np.rint / np.round): concretised to k under the model, k - 1/2 < x < k + 1/2
    joins the path condition; an exact half is a tie (measure zero)."""
    n = s.n
    if isc(n):
        return int(np.rint(float(n.val)))
    v = evalf(n)
    k = int(np.rint(v))
    half = Fraction(1, 2)
    lo_v, hi_v = v - (k - 0.5), (k + 0.5) - v
    record_pc(sub(n, const(k - half)), ">" if lo_v > 0 else "tie")
    record_pc(sub(n, const(k + half)), "<" if hi_v > 0 else "tie")
    return k


def node_vars(n, acc=None):
    acc = set() if acc is None else acc
    seen = set()
    st = [n]
    while st:
        m = st.pop()
        if m.id in seen:
            continue
        seen.add(m.id)
        if m.op == "var":
            acc.add(m.val)
        st.extend(m.args)
    return acc


def node_size(nodes):
    seen = set()
    st = list(nodes)
    while st:
        m = st.pop()
        if m.id in seen:
            continue
        seen.add(m.id)
        st.extend(m.args)
    return len(seen)


def node_str(n, depth=4):
    """compact rendering of a term for evidence samples"""
    if n.op == "const":
        v = n.val
        return str(v.numerator) if v.denominator == 1 else ("%.6g" % float(v))
    if n.op == "var":
        return n.val
    if n.op in ("inf", "nan"):
        return ("-" if n.val == -1 else "") + n.op
    if depth <= 0:
        return "..."
    a = [node_str(x, depth - 1) for x in n.args]
    if n.op == "add":
        return "(%s + %s)" % (a[0], a[1])
    if n.op == "mul":
        return "%s*%s" % (a[0], a[1])
    if n.op == "div":
        return "(%s / %s)" % (a[0], a[1])
    return "%s(%s)" % (n.op, a[0])
