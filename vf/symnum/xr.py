"""Extended-real mode (C09): exact real arithmetic + IEEE special values + the overflow / underflow thresholds of
exp for the nominal dtype.  exp(u) is a three-way concolic branch (u >= U+ -> +inf, u <= U- -> 0, otherwise a finite
atom); special values propagate by the IEEE rules, with sign tests recorded as path conditions.  Rounding is NOT
modelled."""
from __future__ import annotations

import math
from fractions import Fraction

from . import scalar as sc
from .scalar import S, CTX, mk, const, isc, Unsupported

# exp overflows to +inf / underflows to 0 beyond these arguments (float32: ln(FLT_MAX) = 88.72284, ln(min denormal)
# = -103.97208; float64: 709.78271, -745.13322).  The model switches a hair outside, so "u >= U+ => inf" and
# "u <= U- => 0" are sound; inside the 1e-3-wide bands the finite branch is taken (stated in the evidence).
THRESH = {"float32": (Fraction("88.7229"), Fraction("-103.9730")), "float64": (Fraction("709.7828"), Fraction("-745.1340"))}


def NAN():
    return mk("nan", (), None)


def INF(sign):
    return mk("inf", (), 1 if sign > 0 else -1)


def sign_of(n):
    """concolic sign of a finite node"""
    if isc(n):
        return (n.val > 0) - (n.val < 0)
    v = sc.evalf(n)
    if v != v:
        raise Unsupported("sign of an undefined value")
    sc.record_pc(n, ">" if v > 0 else ("<" if v < 0 else "tie"))
    return (v > 0) - (v < 0)


class XR:
    def __init__(self, dtype="float32"):
        self.dtype = dtype
        self.up, self.um = THRESH[dtype]

    # ------------------------------------------------------------------ arithmetic on special values
    def inf_arith(self, op, a, b):
        if a.op == "nan" or b.op == "nan":
            return NAN()
        ai, bi = a.op == "inf", b.op == "inf"
        if op == "add":
            if ai and bi:
                return a if a.val == b.val else NAN()
            return a if ai else b
        if op == "mul":
            if ai and bi:
                return INF(a.val * b.val)
            i, f = (a, b) if ai else (b, a)
            s = sign_of(f)
            return NAN() if s == 0 else INF(i.val * s)
        if op == "div":
            if ai and bi:
                return NAN()
            if bi:
                return const(0)
            s = sign_of(b)
            return INF(a.val * (s if s else 1))
        raise Unsupported(op)

    def div_by_zero(self, a):
        s = sign_of(a)
        return NAN() if s == 0 else INF(s)

    def fn_special(self, name, a):
        if a.op == "nan":
            return a
        if name == "exp":
            return a if a.val > 0 else const(0)
        if name == "log":
            return a if a.val > 0 else NAN()
        if name == "sqrt":
            return a if a.val > 0 else NAN()
        if name == "tanh":
            return const(a.val)
        raise Unsupported(name)

    # ------------------------------------------------------------------ transcendental functions
    def exp(self, s):
        n = s.n
        if n.op in sc.SPECIAL:
            return S(self.fn_special("exp", n), s.nd)
        if isc(n):
            if n.val >= self.up:
                return S(INF(1), s.nd)
            if n.val <= self.um:
                return S(const(0), s.nd)
            if n.val == 0:
                return S(const(1), s.nd)
            return S(mk("exp", (n,)), s.nd)
        v = sc.evalf(n)
        if v != v:
            raise Unsupported("exp of an undefined value")
        if v >= float(self.up):
            sc.record_pc(sc.sub(n, const(self.up)), ">" if v > float(self.up) else "tie")
            return S(INF(1), s.nd)
        if v <= float(self.um):
            sc.record_pc(sc.sub(n, const(self.um)), "<" if v < float(self.um) else "tie")
            return S(const(0), s.nd)
        sc.record_pc(sc.sub(n, const(self.up)), "<")
        sc.record_pc(sc.sub(n, const(self.um)), ">")
        return S(mk("exp", (n,)), s.nd)

    def log(self, s):
        n = s.n
        if n.op in sc.SPECIAL:
            return S(self.fn_special("log", n), s.nd)
        if isc(n):
            if n.val == 0:
                return S(INF(-1), s.nd)
            if n.val < 0:
                return S(NAN(), s.nd)
            if n.val == 1:
                return S(const(0), s.nd)
            return S(mk("log", (n,)), s.nd)
        sg = sign_of(n)
        if sg < 0:
            return S(NAN(), s.nd)
        if sg == 0:
            return S(INF(-1), s.nd)
        return S(mk("log", (n,)), s.nd)

    def sqrt(self, s):
        n = s.n
        if n.op in sc.SPECIAL:
            return S(self.fn_special("sqrt", n), s.nd)
        return S(sc.fn("sqrt", n), s.nd)

    def tanh(self, s):
        n = s.n
        if n.op in sc.SPECIAL:
            return S(self.fn_special("tanh", n), s.nd)
        if isc(n, 0):
            return S(const(0), s.nd)
        return S(mk("tanh", (n,)), s.nd)


# ------------------------------------------------------------------------------------------------ sound axioms
EXP_MARKS = [-750, -745, -710, -700, -400, -200, -104, -100, -88, -70, -50, -40, -30, -28, -20, -16, -12, -8, -5, -3, -2, -1, 0, 1, 2, 3, 5, 8, 12, 16, 20,
             28, 30, 40, 50, 70, 88, 89, 200, 400, 700, 709, 710]
LOG_MARKS = ["1e-320", "1e-300", "1e-100", "1e-45", "1e-38", "1e-30", "1e-20", "1e-13", "1e-12", "1e-11", "1e-8", "1e-5", "1e-3", "0.1", "0.5", "1", "2", "10",
             "1e3", "1e5", "1e10", "1e20", "1e38", "1e100", "1e300"]


def _frac_lo(x):
    """a rational <= x (x a positive float or huge): relative margin 1e-9"""
    f = Fraction(x) if not isinstance(x, Fraction) else x
    return f * (1 - Fraction(1, 10 ** 9)) if f >= 0 else f * (1 + Fraction(1, 10 ** 9))


def _frac_hi(x):
    f = Fraction(x) if not isinstance(x, Fraction) else x
    return f * (1 + Fraction(1, 10 ** 9)) if f >= 0 else f * (1 - Fraction(1, 10 ** 9))


def _exp_bounds(c):
    """rational lo <= e^c <= hi"""
    import mpmath
    mpmath.mp.dps = 60
    v = mpmath.e ** c
    fr = Fraction(int(mpmath.floor(v * mpmath.mpf(10) ** 70)), 10 ** 70)
    return _frac_lo(fr), _frac_hi(fr + Fraction(1, 10 ** 70))


def _log_bounds(c):
    import mpmath
    mpmath.mp.dps = 60
    v = mpmath.log(mpmath.mpf(str(c)))
    sc_ = mpmath.mpf(10) ** 50
    lo = Fraction(int(mpmath.floor(v * sc_)), 10 ** 50)
    return lo - Fraction(1, 10 ** 49), lo + Fraction(2, 10 ** 49)


_EXPB = {}
_LOGB = {}


def axioms(lw, z3):
    """ground facts every real exp / log / tanh satisfies, instantiated for the atoms of this lowering:
    positivity, landmarks, tangent lines, pairwise monotonicity, the functional equation, and the secant bound of log."""
    out = []
    rv = lw.rv
    # exp and log are inverse: for an atom E = exp(R - sum_j k_j log T_j) with positive integer k_j the identity
    # E * prod_j T_j^k_j = exp(R) ties it to the atom of the log-free rest (created here if it does not exist yet)
    done = set()
    while True:
        todo = [(key, ent) for key, ent in list(lw.atoms.items()) if key[0] == "exp" and key not in done]
        if not todo:
            break
        for key, (v, node, (a, b)) in todo:
            done.add(key)
            lf, c0 = sc.linform(node.args[0])
            logs_in = [(c, t) for c, t in lf.values() if t.op == "log"]
            if not logs_in or any(c.denominator != 1 or c > 0 for c, t in logs_in):
                continue
            rest = sc.const(c0)
            for c, t in lf.values():
                if t.op != "log":
                    rest = sc.add(rest, sc.mul(sc.const(c), t))
            rn, rd = lw.q(mk("exp", (rest,))) if not sc.isc(rest, 0) else (lw.ONE, lw.ONE)
            lhs_n, lhs_d = v, lw.ONE
            for c, t in logs_in:
                tn, td = lw.q(t.args[0])
                for _ in range(int(-c)):
                    lhs_n, lhs_d = lw.pm(lhs_n, tn), lw.pm(lhs_d, td)
            out.append(lw.pm(lhs_n, rd) == lw.pm(rn, lhs_d))
    exps, logs = [], []
    for (op, _), (v, node, (a, b)) in lw.atoms.items():
        if op == "exp":
            exps.append((v, a, b))
        elif op == "log":
            logs.append((v, a, b))
    rv = lw.rv
    pm = lw.pm
    for v, a, b in exps:       # v = exp(a/b), b is 1 for the terms that occur (arguments are polynomials)
        if not z3.eq(b, lw.ONE):
            continue
        out.append(v > 0)
        out.append(v >= 1 + a)                             # tangent at 0
        for c in EXP_MARKS:
            if CTX.xr_marks is not None and not (CTX.xr_marks[0] <= c <= CTX.xr_marks[1]):
                continue        # landmarks outside the dtype's finite range of exp arguments never matter
            if c not in _EXPB:
                _EXPB[c] = _exp_bounds(c)
            lo, hi = _EXPB[c]
            out.append(z3.Implies(a >= c, v >= rv(lo)))
            out.append(z3.Implies(a <= c, v <= rv(hi)))
    for i in range(len(exps)):
        for j in range(i + 1, len(exps)):
            v1, a1, b1 = exps[i]
            v2, a2, b2 = exps[j]
            if z3.eq(b1, lw.ONE) and z3.eq(b2, lw.ONE):
                out.append((a1 <= a2) == (v1 <= v2))
                out.append((a1 == a2) == (v1 == v2))
    # functional equation exp(s) * exp(t) = exp(s + t) for pairs of atoms whose arguments add up to / differ by a constant
    # (a kernel that evaluates exp(-|x|) on one branch and exp(x) on the other computes the same function)
    enodes = [(v, node) for (op, _), (v, node, _) in lw.atoms.items() if op == "exp"]
    for i in range(len(enodes)):
        for j in range(i + 1, len(enodes)):
            (v1, n1), (v2, n2) = enodes[i], enodes[j]
            lf1, c1 = sc.linform(n1.args[0])
            lf2, c2 = sc.linform(n2.args[0])
            if set(lf1) != set(lf2) or not lf1:
                continue
            if all(lf1[k][0] == -lf2[k][0] for k in lf1):          # s + t = c1 + c2
                c = c1 + c2
                if c == 0:
                    out.append(v1 * v2 == 1)
                elif abs(c) <= 700:
                    lo, hi = _exp_bounds(c)
                    out.append(z3.And(v1 * v2 >= rv(lo), v1 * v2 <= rv(hi)))
            elif all(lf1[k][0] == lf2[k][0] for k in lf1):         # s - t = c1 - c2
                c = c1 - c2
                if c == 0:
                    out.append(v1 == v2)
                elif abs(c) <= 700:
                    lo, hi = _exp_bounds(c)
                    out.append(z3.And(v1 >= rv(lo) * v2, v1 <= rv(hi) * v2))
    for v, a, b in logs:       # v = log(a/b)
        t_gt = (lambda c: pm(a, b) >= pm(rv(c), pm(b, b)))     # a/b >= c  <=>  a*b >= c*b^2
        t_lt = (lambda c: pm(a, b) <= pm(rv(c), pm(b, b)))
        out.append(pm(a, b) > 0)
        # log t <= t - 1   <=>  v*b^2 <= a*b - b^2   (b^2 > 0)
        out.append(pm(v, pm(b, b)) <= pm(a, b) - pm(b, b))
        for c in LOG_MARKS:
            if c not in _LOGB:
                _LOGB[c] = _log_bounds(c)
            lo, hi = _LOGB[c]
            fc = Fraction(c)
            out.append(z3.Implies(t_gt(fc), v >= rv(lo)))
            out.append(z3.Implies(t_lt(fc), v <= rv(hi)))
    for i in range(len(logs)):
        for j in range(len(logs)):
            if i == j:
                continue
            v1, a1, b1 = logs[i]
            v2, a2, b2 = logs[j]
            if z3.eq(b1, lw.ONE) and z3.eq(b2, lw.ONE):
                # monotone, and the secant bound  0 <= log t2 - log t1 <= (t2 - t1)/t1  for 0 < t1 <= t2
                out.append(z3.Implies(a1 <= a2, z3.And(v1 <= v2, pm(v2 - v1, a1) <= a2 - a1)))
    return out
