"""Case runner: path exploration with solver-checked coverage, obligations, trace validation, replay.

A *case* is one configuration (op + shapes + arguments + flags).  ``case.run(env)`` drives the real synapgrad
API on arrays obtained from ``env`` and returns an ``Outcome``.  In symbolic mode the arrays hold symbolic
scalars, so one run yields the closed-form terms valid for every value on the path taken; in plain mode the
very same function runs on ordinary NumPy arrays (un-instrumented code) at one concrete point.
"""
from __future__ import annotations

import math
import os
import random
import sys
import time
import traceback

import numpy as np

from . import scalar as sc
from . import array as ar
from . import lower as lw
from . import diff
from .scalar import S, CTX, Unsupported


# --------------------------------------------------------------------------------------------- Outcome
class Outcome:
    def __init__(self):
        self.pairs = []      # (label, observed, expected)
        self.claims = []     # (label, lhs, rel, rhs): elementwise inequality that must hold on the whole domain
        self.facts = []      # (label, ok, detail)
        self.vjp = None      # dict(outs=[arrays], gs=[arrays], inputs=[(label, data, grad, requires)])
        self.rejected = None  # str: forward rejected the configuration (not a violation by itself)
        self.notes = {}

    def pair(self, label, observed, expected):
        self.pairs.append((label, observed, expected))

    def claim(self, label, lhs, rel, rhs):
        self.claims.append((label, lhs, rel, rhs))

    def fact(self, label, ok, detail=""):
        self.facts.append((label, bool(ok), detail))


# --------------------------------------------------------------------------------------------- Env
class Env:
    def __init__(self, mode, point=None, rng=None):
        self.mode = mode          # 'sym' | 'plain' | 'plain64'
        self.point = point if point is not None else {}
        self.rng = rng or random.Random(0)
        self.inputs = {}          # name -> array as created
        self.autosample = False   # plain modes: draw a value for names missing from the point

    @property
    def sym(self):
        return self.mode == "sym"

    def _sample(self, lo, hi, nonzero):
        a = -2.0 if lo is None else float(lo)
        b = 2.0 if hi is None else float(hi)
        if lo is None and hi is not None:
            a = b - 4.0
        if hi is None and lo is not None:
            b = a + 3.0
        for _ in range(50):
            v = a + (b - a) * (0.02 + 0.96 * self.rng.random())
            v = round(v, 3)
            if a < v < b and (abs(v) > 0.05 or not nonzero) and abs(v) > 1e-3:
                return v
        return (a + b) / 2

    def sampler(self, name, varkw):
        if name in self.point:
            return self.point[name]
        return self._sample(varkw.get("lo"), varkw.get("hi"), varkw.get("nonzero", False))

    def arr(self, name, shape, dtype=np.float32, lo=None, hi=None, lo_strict=False, hi_strict=False,
            kind="data", nonzero=False):
        shape = tuple(shape)
        if self.sym:
            a = ar.sym_array(name, shape, dtype, lo=lo, hi=hi, lo_strict=lo_strict, hi_strict=hi_strict,
                             kind=kind, nonzero=nonzero)
            self.inputs[name] = a
            return a
        dt = np.float64 if self.mode == "plain64" else dtype
        a = np.empty(shape, dtype=dt)
        for idx in np.ndindex(*shape):
            nm = name + "".join("_%d" % i for i in idx)
            if self.autosample and nm not in self.point:
                self.point[nm] = self._sample(lo, hi, nonzero)
            a[idx] = self.point[nm]
        self.inputs[name] = a
        return a

    def scalar(self, name, lo=None, hi=None, lo_strict=False, hi_strict=False, kind="hyper", nonzero=False):
        if self.sym:
            n = sc.var(name, lo=lo, hi=hi, lo_strict=lo_strict, hi_strict=hi_strict, kind=kind, nonzero=nonzero)
            if name not in CTX.model:
                CTX.model[name] = self.point[name] if name in self.point else self._sample(lo, hi, nonzero)
            return S(n)
        if self.autosample and name not in self.point:
            self.point[name] = self._sample(lo, hi, nonzero)
        return float(self.point[name])

    def const(self, values, dtype=np.float32):
        if self.sym:
            return ar.from_values(values, dtype)
        dt = np.float64 if (self.mode == "plain64" and np.dtype(dtype).kind == "f") else dtype
        return np.array(values, dtype=dt)

    def feed(self, name, shape):
        """plain-mode RNG feed: the model values of the symbolic draw called ``name``."""
        a = np.empty(shape, dtype=np.float64)
        for k, idx in enumerate(np.ndindex(*shape)):
            nm = name + "_f%d" % k          # draws are named by their position in the stream (see array.sym_array)
            if self.autosample and nm not in self.point:
                self.point[nm] = round(0.05 + 0.9 * self.rng.random(), 3)
            a[idx] = self.point[nm]
        return a


# --------------------------------------------------------------------------------------------- utilities
def flat_nodes(x):
    """array / scalar of S (or numbers) -> list of nodes, shape"""
    if isinstance(x, S):
        return [x.n], ()
    if isinstance(x, np.ndarray):
        raw = x.view(np.ndarray)
        if raw.dtype == object:
            return [sc.lift(v) for v in raw.reshape(-1)], x.shape
        return [sc.const(v) for v in raw.reshape(-1)], x.shape
    if isinstance(x, (list, tuple)):
        a = np.empty(len(x), dtype=object)
        out = []
        for v in x:
            out.append(sc.lift(v))
        return out, (len(x),)
    return [sc.const(x)], ()


def flat_floats(x):
    if isinstance(x, np.ndarray):
        return [float(v) for v in x.reshape(-1)], x.shape
    if isinstance(x, (list, tuple)):
        return [float(v) for v in x], (len(x),)
    return [float(x)], ()


def nominal_dtype(x):
    if isinstance(x, ar.SymArray):
        return str(x._nd)
    if isinstance(x, S):
        return str(x.nd) if x.nd is not None else "float64"
    if isinstance(x, np.ndarray):
        return str(x.dtype)
    if isinstance(x, np.generic):
        return str(x.dtype)
    return type(x).__name__


def _flip(rel):
    return {">": "<", "<": ">", "==": "!=", "!=": "=="}[rel]


def _all_hyper(d):
    vs = sc.node_vars(d)
    return bool(vs) and all(CTX.vars[v].kind == "hyper" for v in vs)


def _holds(d, rel, model, memo):
    v = sc.evalf(d, model, memo)
    if v != v:
        return False
    return {">": v > 0, "<": v < 0, "==": v == 0, "!=": v != 0, "tie": v == 0}[rel]


class Options:
    def __init__(self, tier="quick", seed=0):
        self.tier = tier
        self.seed = seed
        self.max_paths = 64 if tier == "quick" else 512
        self.timeout_ms = 10000 if tier == "quick" else 90000
        self.validate_paths = 2 if tier == "quick" else 4
        self.box = (-4, 4)
        self.profile = True
        self.solver_diff = 0.0 if tier == "quick" else 0.02    # share of obligations re-decided by z3 4.8.12 and cvc5
        self.ties = False                       # explore two-way ties (C01/C02: valid subgradient at kinks)
        self.max_ties = 12 if tier == "quick" else 64


# --------------------------------------------------------------------------------------------- symbolic run
class PathResult:
    __slots__ = ("model", "pc", "axioms", "outcome", "error", "tb", "funcs", "ties")

    def __init__(self):
        self.model = None
        self.pc = []
        self.axioms = []
        self.outcome = None
        self.error = None
        self.tb = ""
        self.funcs = None
        self.ties = []


def _profile_collect(store):
    repo = os.environ.get("VERIF_REPO", "/repo")

    def prof(frame, event, arg):
        if event == "call":
            co = frame.f_code
            fn = co.co_filename
            if fn.startswith(repo) and "/synapgrad/" in fn:
                store.add(fn[len(repo) + 1:].replace("/", ".")[:-3] + ":" + co.co_qualname)
    return prof


class Err(str):
    """error text of a run + where the exception was raised ('repo' or 'harness')"""
    origin = "repo"


def exception_origin(exc):
    """'harness' if the exception was raised by the checking code itself (a harness that reaches for a private name the tree
    no longer has, a reference that cannot handle a configuration ...), 'repo' if it came out of the code under test.
    Decided by the innermost traceback frame that belongs to either; NumPy, the standard library and the symbolic shim
    (which the code under test calls into) are skipped.  A harness error is never a verdict about synapgrad."""
    repo = os.path.realpath(os.environ.get("VERIF_REPO", "/repo")) + os.sep
    vf = os.path.dirname(os.path.dirname(os.path.realpath(__file__))) + os.sep
    shim = os.path.dirname(os.path.realpath(__file__)) + os.sep
    frames = []
    tb = exc.__traceback__
    while tb is not None:
        frames.append(os.path.realpath(tb.tb_frame.f_code.co_filename))
        tb = tb.tb_next
    for fn in reversed(frames):
        if fn.startswith(repo):
            return "repo"
        if fn.startswith(vf) and not fn.startswith(shim):
            return "harness"
    return "harness"


def run_symbolic(case, model, rng, profile=False, allow_ties=False):
    pr = PathResult()
    CTX.begin_run()
    CTX.set_model(model)
    CTX.allow_ties = allow_ties
    ar.install()
    env = Env("sym", point=model, rng=rng)
    CTX.sampler = env.sampler
    funcs = set()
    if profile:
        sys.setprofile(_profile_collect(funcs))
    try:
        pr.outcome = case.run(env)
    except Unsupported as e:
        pr.error = ("unsupported", repr(e))
        pr.tb = traceback.format_exc(limit=6)
    except ar.OutOfBoundsView as e:
        pr.error = ("oob", str(e))
    except RecursionError as e:
        pr.error = ("unsupported", "recursion: " + repr(e))
    except Exception as e:  # noqa: BLE001 - the real code raised (or the harness did: told apart by the traceback)
        pr.error = ("exception" if exception_origin(e) == "repo" else "harness", "%s: %s" % (type(e).__name__, e))
        pr.tb = traceback.format_exc(limit=8)
    finally:
        if profile:
            sys.setprofile(None)
        ar.uninstall()
        CTX.allow_ties = False
    pr.funcs = funcs
    pr.model = dict(CTX.model)
    pr.pc = [(d, rel) for d, rel in CTX.pc if rel != "tie"]
    pr.ties = [d for d, rel in CTX.pc if rel == "tie"]
    pr.axioms = list(CTX.extra_axioms)
    return pr, env


def run_plain(case, point, mode="plain", uses_rng=False):
    env = Env(mode, point=dict(point))
    env.autosample = True      # names the symbolic run never reached (it stopped early) get a sampled value
    # np.random is always the replaying stub in plain runs: no oracle can know what the real generator would draw, so a
    # run that reaches a generator the stub does not model ends as unsupported (inconclusive) instead of being judged
    ar.install_plain(env.feed)
    try:
        out = case.run(env)
        out.notes["_any32"] = any(isinstance(a, np.ndarray) and a.dtype == np.float32 for a in env.inputs.values())
        return out, None
    except Exception as e:  # noqa: BLE001
        err = Err("%s: %s" % (type(e).__name__, e))
        err.origin = "unsupported" if isinstance(e, Unsupported) else exception_origin(e)
        return None, err
    finally:
        ar.uninstall()


# --------------------------------------------------------------------------------------------- exploration
def explore(case, opts, rng, stats):
    """enumerate the feasible paths of ``case`` inside the domain; completeness is checked by the solver:
    domain AND no-tie AND NOT(PC_1 OR ... OR PC_m) must be unsat."""
    paths = []
    sigs = set()
    neg_paths = []
    pending = [dict()]
    complete = False
    reason = ""
    stuck = 0
    tie_nodes = {}
    first = True
    while True:
        if pending:
            model = pending.pop()
        else:
            # ties the exploration keeps running into: the solver's exact model lies off the tie surface but within what
            # floating point can resolve (a sliver between two almost equal thresholds).  From then on a band of 1e-9 around
            # those surfaces is left out of the coverage claim (stated in the evidence), not just the surface itself
            banded = stats["tie_runs"] > 6
            if banded:
                stats["tie_bands"] = len(tie_nodes)
            extra = [(d, "apart" if banded else "!=") for d in tie_nodes.values()]
            st, pt, dt = lw.find_model(extra, neg_paths=neg_paths, timeout_ms=opts.timeout_ms)
            stats["coverage_queries"] += 1
            if st == "unsat":
                complete = True
                break
            if st != "sat":
                # fallback for non-linear path conditions: when every path branches on the same comparison terms, decide
                # each unexplored sign vector on its own (a conjunction is far easier for nlsat than the big disjunction)
                st, pt = _signvector_fallback(paths, sigs, extra, opts, stats)
                if st == "unsat":
                    complete = True
                    break
                if st != "sat":
                    reason = "coverage query " + st
                    break
            base = dict(paths[-1].model) if paths else {}
            base.update(pt)
            model = _perturb(base, pt, neg_paths, rng, list(tie_nodes.values()))
        pr, env = run_symbolic(case, model, rng, profile=(first and opts.profile),
                               allow_ties=getattr(case, "allow_ties", False))
        first = False
        stats["runs"] += 1
        if pr.error and pr.error[0] == "unsupported":
            return paths + [pr], False, "unsupported: " + pr.error[1]
        if pr.ties:
            for d in pr.ties:
                tie_nodes[d.id] = d
            stats["tie_runs"] += 1
            if stats["tie_runs"] > 40:
                reason = "too many tie models"
                break
            if not paths and not pending:
                pending.append(dict())   # resample the initial point
                CTX.model = {}
            continue
        sig = frozenset((d.id, rel) for d, rel in pr.pc)
        if sig in sigs:
            stuck += 1
            if stuck > 12:
                reason = "solver model not realisable (path already explored)"
                break
            # the solver's exact point lies in an unexplored region, its floating-point image on an explored path: some
            # comparison of that path is decided within rounding of its threshold.  Those thresholds get a band like ties do.
            memo = {}
            for d, rel in pr.pc:
                try:
                    v = sc.evalf(d, pr.model, memo)
                except Exception:  # noqa: BLE001
                    continue
                if abs(v) < 1e-7:
                    tie_nodes[d.id] = d
                    stats["tie_runs"] = max(stats["tie_runs"], 7)      # switch to bands
            continue
        sigs.add(sig)
        paths.append(pr)
        neg = []
        for d, rel in pr.pc:
            if rel == "!=" and not _all_hyper(d):
                continue       # equality side is a measure-zero set of data values: outside the claim
            neg.append((d, rel))
        neg_paths.append(neg)
        if len(paths) >= opts.max_paths:
            reason = "path budget (%d) exhausted" % opts.max_paths
            break
    return paths, complete, reason


def _signvector_fallback(paths, sigs, extra, opts, stats):
    import itertools
    good = [p for p in paths if not p.error]
    if not good:
        return "unknown", None
    ids = [sorted(d.id for d, r in p.pc if r in (">", "<")) for p in good]
    if any(i != ids[0] for i in ids) or not ids[0] or len(ids[0]) > 10:
        return "unknown", None
    if any(r not in (">", "<") for p in good for d, r in p.pc):
        return "unknown", None
    nodes = {d.id: d for d, r in good[0].pc}
    order = ids[0]
    unknown = False
    for signs in itertools.product("><", repeat=len(order)):
        sig = frozenset(zip(order, signs))
        if sig in sigs:
            continue
        st, pt, _ = lw.find_model([(nodes[i], r) for i, r in zip(order, signs)] + list(extra), timeout_ms=opts.timeout_ms)
        stats["coverage_queries"] += 1
        if st == "sat":
            return "sat", pt
        if st != "unsat":
            unknown = True
    return ("unknown" if unknown else "unsat"), None


def _perturb(base, pt, neg_paths, rng, tie_nodes=()):
    """move the solver's point slightly so that it is generic (no accidental ties), staying outside every
    explored path; equality-constrained hyper-parameters are left alone."""
    for scale in (1e-2, 1e-4, 1e-1, 1e-3, 1e-2, 1e-5, 1e-1, 1e-3):
        cand = dict(base)
        for k in pt:
            vi = CTX.vars.get(k)
            if vi is None or vi.kind == "hyper":
                continue
            v = pt[k] + scale * (rng.random() - 0.5) * max(1.0, abs(pt[k]) * 1e-2)
            if vi.lo is not None and v <= vi.lo:
                continue
            if vi.hi is not None and v >= vi.hi:
                continue
            cand[k] = v
        memo = {}
        ok = True
        for path in neg_paths:
            if all(_holds(d, rel, cand, memo) for d, rel in path):
                ok = False
                break
        if ok:
            for d in tie_nodes:
                try:
                    if sc.evalf(d, cand, memo) == 0:
                        ok = False
                        break
                except KeyError:
                    pass
        if ok:
            return cand
    return dict(base)


# --------------------------------------------------------------------------------------------- deciding a case
def _goal_pairs(outcome, env):
    """-> [(label, idx, node_obs, node_exp)], [fact violations]"""
    goals = []
    facts = []
    for label, obs, exp in outcome.pairs:
        on, oshape = flat_nodes(obs)
        en, eshape = flat_nodes(exp)
        if tuple(oshape) != tuple(eshape):
            facts.append((label + ":shape", False, "observed shape %s, expected %s" % (oshape, eshape)))
            continue
        for i, (a, b) in enumerate(zip(on, en)):
            goals.append((label, i, a, b))
    if outcome.vjp is not None:
        v = outcome.vjp
        gl, ol = [], []
        for g, o in zip(v["gs"], v["outs"]):
            gn, gs_ = flat_nodes(g)
            on, os_ = flat_nodes(o)
            if len(gn) != len(on):
                facts.append(("vjp:seed-shape", False, "%s vs %s" % (gs_, os_)))
                continue
            gl += gn
            ol += on
        L = diff.inner(gl, ol)
        wrt = []
        slots = []
        for label, data, grad, requires in v["inputs"]:
            dn, dshape = flat_nodes(data)
            if not requires:
                if grad is not None:
                    facts.append((label + ":no-grad", False, "a tensor that does not require grad received one"))
                continue
            if grad is None:
                facts.append((label + ":grad-missing", False, "no .grad after backward"))
                continue
            gn, gshape = flat_nodes(grad)
            if tuple(gshape) != tuple(dshape):
                facts.append((label + ":grad-shape", False, "grad shape %s, tensor shape %s" % (gshape, dshape)))
                continue
            for i, (dnode, gnode) in enumerate(zip(dn, gn)):
                wrt.append(dnode)
                slots.append(("grad(" + label + ")", i, gnode))
        exp = diff.grad(L, wrt) if wrt else []
        for (label, i, gnode), e in zip(slots, exp):
            goals.append((label, i, gnode, e))
    for label, ok, detail in outcome.facts:
        if not ok:
            facts.append((label, ok, detail))
    for label, lhs, rel, rhs in outcome.claims:
        ln, lsh = flat_nodes(lhs)
        rn, rsh = flat_nodes(rhs)
        if len(rn) == 1 and len(ln) > 1:
            rn = rn * len(ln)
        for i, (a, b) in enumerate(zip(ln, rn)):
            goals.append((label, i, (sc.sub(a, b), rel), None))
    return goals, facts


def _observed_arrays(outcome):
    obs = {}
    for label, o, _ in outcome.pairs:
        if not label.startswith("sym:"):     # symbolic-only obligations (e.g. derivatives of terms) have no plain twin
            obs[label] = o
    if outcome.vjp is not None:
        for i, o in enumerate(outcome.vjp["outs"]):
            obs["out%d" % i] = o
        for label, data, grad, requires in outcome.vjp["inputs"]:
            if grad is not None:
                obs["grad(" + label + ")"] = grad
    for k, v in outcome.notes.items():
        if k.startswith("obs:"):
            obs[k] = v
    return obs


def _evalf_array(x, model, memo):
    nodes, shape = flat_nodes(x)
    return [sc.evalf(n, model, memo) for n in nodes], shape


def _scale(vals):
    m = 1.0
    for v in vals:
        if v == v and abs(v) != math.inf:
            m = max(m, abs(v))
    return m


def validate_path(case, pr, uses_rng):
    """translation validation of the shim: symbolic terms evaluated at the path's model must equal an
    un-instrumented run of the same harness at that point (values, shapes, nominal dtypes)."""
    out, err = run_plain(case, pr.model, "plain", uses_rng)
    if pr.error:
        if err is None:
            return False, "symbolic run raised %s but the plain run did not" % (pr.error[1],)
        return True, ""
    if err is not None:
        return False, "plain run raised %s but the symbolic run did not" % err
    if (out.rejected is None) != (pr.outcome.rejected is None):
        return False, "rejected differs: sym=%r plain=%r" % (pr.outcome.rejected, out.rejected)
    so = _observed_arrays(pr.outcome)
    po = _observed_arrays(out)
    if set(so) != set(po):
        return False, "observed keys differ: %s vs %s" % (sorted(so), sorted(po))
    memo = {}
    for k in so:
        sv, sshape = _evalf_array(so[k], pr.model, memo)
        pv, pshape = flat_floats(po[k])
        if tuple(sshape) != tuple(pshape):
            return False, "%s: shape %s (shim) vs %s (plain)" % (k, sshape, pshape)
        sd, pd = nominal_dtype(so[k]), nominal_dtype(po[k])
        if sd != pd and not (sd.startswith("float") and pd == "float"):
            return False, "%s: dtype %s (shim) vs %s (plain)" % (k, sd, pd)
        tol = 2e-3 if ("32" in pd or "16" in pd or out.notes.get("_any32")) else 1e-7
        scl = _scale(pv)
        for a, b in zip(sv, pv):
            if (a != a and b != b) or a == b:
                continue
            if not abs(a - b) <= tol * scl:
                return False, "%s: value %r (shim) vs %r (plain)" % (k, a, b)
    # facts must agree too
    sf = {l: ok for l, ok, _ in pr.outcome.facts}
    pf = {l: ok for l, ok, _ in out.facts}
    for l in sf:
        if l in pf and sf[l] != pf[l]:
            return False, "fact %s: %s (shim) vs %s (plain)" % (l, sf[l], pf[l])
    return True, ""


def _num_diff(goals, model):
    """goal pairs whose two sides differ numerically at ``model``"""
    memo = {}
    bad = []
    for label, i, a, b in goals:
        if b is None:       # inequality claim (node, rel)
            v = sc.evalf(a[0], model, memo)
            ok = {">": v > 0, ">=": v >= 0, "<": v < 0, "<=": v <= 0}[a[1]]
            if v == v and not ok:
                bad.append((label, i, v, 0.0))
            continue
        if a is b:
            continue
        x = sc.evalf(a, model, memo)
        y = sc.evalf(b, model, memo)
        if x != x or y != y:
            continue
        if abs(x - y) > (getattr(sc.CTX, "tol", None) or 1e-6) * max(1.0, abs(x), abs(y)):
            bad.append((label, i, x, y))
    return bad


def decide_case(case, opts):
    """-> result dict (JSON-able)"""
    t0 = time.time()
    sc.CTX.reset()
    sc.CTX.xr_axioms = bool(getattr(case, "xr_axioms", False))      # C09: ground axioms for exp/log atoms in every query
    sc.CTX.xr_marks = getattr(case, "xr_marks", None)
    sc.CTX.tol = getattr(case, "tol", None)       # numeric screen / replay tolerance (default 1e-6 / 1e-5; tighter for float64-exact cases)
    rng = random.Random((opts.seed * 1000003) ^ (hash_sig(case.sig) & 0xFFFFFFF))
    stats = {"runs": 0, "coverage_queries": 0, "tie_runs": 0}
    q0, s0 = lw.STATS["queries"], lw.STATS["solver_s"]
    res = {"sig": case.sig, "status": "ok", "paths": 0, "complete": False, "violations": [], "inconclusive": [],
           "obligations": 0, "discharged": 0, "validated": 0, "twins_sat": 0, "funcs": [], "goals": 0,
           "rejected": False, "sample": None}
    tw0 = lw.STATS["twin_sat"]
    try:
        paths, complete, reason = explore(case, opts, rng, stats)
    except Unsupported as e:
        paths, complete, reason = [], False, "unsupported: %r" % (e,)
    res["paths"] = len(paths)
    res["complete"] = complete
    res["tie_bands"] = stats.get("tie_bands", 0)
    if not complete:
        res["inconclusive"].append("exploration incomplete: " + reason)
    funcs = set()
    uses_rng = any(vi.kind == "rng" for vi in CTX.vars.values()) or getattr(case, "needs_rng_stub", False)
    nvalid = 0
    path_goals = {}
    for pi, pr in enumerate(paths):
        if pr.funcs:
            funcs |= pr.funcs
        if res["violations"]:
            break      # one reproduced counterexample per configuration is enough
        if pr.error and pr.error[0] == "unsupported":
            # the shim could not follow the code here (e.g. the code produced a nan constant).  The plain run at the same
            # point is still judged by the oracle: a reproducing violation is reported, anything else stays inconclusive.
            cand = {"label": "plain run where the symbolic run is unsupported", "kind": "value", "point": _clean(pr.model),
                    "detail": "symbolic execution stopped with %s; the plain run is judged by the oracle" % pr.error[1][:160]}
            try:
                rep = _replay(case, cand, uses_rng or "np.random" in pr.error[1])
            except Exception as e:  # noqa: BLE001
                rep = (False, "replay failed: %r" % (e,))
            if rep[0]:
                cand["replay"] = rep[1]
                res["violations"].append(cand)
            else:
                res["inconclusive"].append(pr.error[1])
            continue
        if pr.error and pr.error[0] == "oob":
            # the real code read outside its buffer: replay the very same point on the plain code, where NumPy reads
            # foreign memory silently, and let the oracle judge the values
            res["obligations"] += 1
            cand = {"label": "out-of-bounds strided view", "kind": "value", "detail": pr.error[1], "point": _clean(pr.model)}
            rep = _replay(case, cand, uses_rng)
            if rep[0]:
                cand["replay"] = rep[1]
                res["violations"].append(cand)
            else:
                res["inconclusive"].append("out-of-bounds strided view in the symbolic run; plain replay: " + rep[1])
            continue
        # ---- trace validation (first paths of every case)
        if nvalid < opts.validate_paths:
            ok, why = validate_path(case, pr, uses_rng)
            nvalid += 1
            if ok:
                res["validated"] += 1
            else:
                # the symbolic run and the un-instrumented run disagree at this point.  Before blaming the shim, let the
                # plain run speak for itself: if the real code violates the case's oracle at this very point, that is a
                # reproducing counterexample (found by the divergence, confirmed without the engine).
                cand = {"label": "plain run at the explored point", "kind": "value", "point": _clean(pr.model),
                        "detail": "symbolic and plain run diverge (%s); the plain run is judged by the oracle" % why[:160]}
                try:
                    # (also when the symbolic run itself raised, e.g. on a NumPy function the shim does not know)
                    rep = _replay(case, cand, uses_rng) if pr.outcome is None or pr.outcome.vjp is None else (False, "")
                except Exception as e:  # noqa: BLE001
                    rep = (False, "replay failed: %r" % (e,))
                if rep[0]:
                    cand["replay"] = rep[1]
                    res["violations"].append(cand)
                    continue
                res["inconclusive"].append("trace validation failed: " + why)
                res["status"] = "harness"
                continue
        if pr.error and pr.error[0] == "harness":
            # the checking code itself failed (e.g. it reached for a private attribute the tree no longer has)
            res["inconclusive"].append("harness error: " + pr.error[1])
            res["status"] = "harness"
            continue
        if pr.error:
            # the real code raised on this path although the case did not expect it
            res["obligations"] += 1
            cand = {"label": "exception", "kind": "exception", "detail": pr.error[1], "point": _clean(pr.model)}
            rep = _replay(case, cand, uses_rng)
            if rep[0]:
                cand["replay"] = rep[1]
                res["violations"].append(cand)
            else:
                res["inconclusive"].append("exception not reproduced in plain run: " + pr.error[1])
            continue
        out = pr.outcome
        if out.rejected is not None:
            res["rejected"] = True
            continue
        try:
            goals, badfacts = _goal_pairs(out, None)
        except Unsupported as e:
            res["inconclusive"].append("goal construction: %r" % (e,))
            continue
        res["goals"] += len(goals)
        path_goals[pi] = goals
        if res["sample"] is None:
            res["sample"] = {"sig": case.sig, "path_condition": ["%s %s 0" % (sc.node_str(d, 3), r) for d, r in pr.pc][:6],
                             "goal_pairs": len(goals), "vars": len(CTX.vars)}
            for l, i, a, b in goals:
                if b is not None and a is not b:
                    res["sample"]["example_obligation"] = {"what": "%s[%d]" % (l, i), "code_term": sc.node_str(a, 5)[:300],
                                                           "oracle_term": sc.node_str(b, 5)[:300]}
                    break
        for label, ok, detail in badfacts:
            res["obligations"] += 1
            cand = {"label": label, "kind": "fact", "detail": detail, "point": _clean(pr.model)}
            rep = _replay(case, cand, uses_rng)
            if rep[0]:
                cand["replay"] = rep[1]
                res["violations"].append(cand)
            else:
                res["inconclusive"].append("fact %s not reproduced in plain run (%s)" % (label, rep[1]))
        res["obligations"] += 1 + sum(1 for l, ok, _ in out.facts if ok)
        res["discharged"] += sum(1 for l, ok, _ in out.facts if ok)
        if not goals:
            res["discharged"] += 1
            continue
        assumptions = pr.pc + pr.axioms
        pairs = [(a, b) for _, _, a, b in goals if b is not None]
        claims = [a for _, _, a, b in goals if b is None]
        cand_point = None
        verdict = None
        nd = _num_diff(goals, pr.model)
        try:
            if nd:
                verdict = lw.decide(pairs, assumptions, pin={k: v for k, v in pr.model.items() if k in CTX.vars},
                                    timeout_ms=opts.timeout_ms, twin=False, claims=claims)
                if verdict.status == "sat":
                    cand_point = dict(pr.model)
            if cand_point is None:
                dump = [] if (opts.solver_diff and rng.random() < opts.solver_diff) else None
                verdict = lw.decide(pairs, assumptions, timeout_ms=opts.timeout_ms, box=None if claims else opts.box,
                                    claims=claims, dump=dump)
                if dump:
                    res.setdefault("solver_diff", []).append(dump[0])
                    if not dump[0]["agree"]:
                        res["inconclusive"].append("solver disagreement: %s" % (dump[0],))
                        res["status"] = "harness"
                        continue
                if verdict.status == "sat":
                    cand_point = dict(pr.model)
                    cand_point.update(verdict.point)
                elif verdict.status == "unknown" and len(pairs) + len(claims) > 1:
                    # the disjunction of all goals was too much for one query: one query per goal (the conjunction of the
                    # individual unsat answers is the same claim)
                    statuses = []
                    for one in [([pq], []) for pq in pairs] + [([], [cl]) for cl in claims]:
                        v1 = lw.decide(one[0], assumptions, timeout_ms=opts.timeout_ms, box=None if claims else opts.box,
                                       claims=one[1], twin=False)
                        statuses.append(v1.status)
                        if v1.status == "sat":
                            verdict = v1
                            cand_point = dict(pr.model)
                            cand_point.update(v1.point)
                            break
                        if v1.status == "unknown":
                            break
                    if cand_point is None and statuses and all(st_ == "unsat" for st_ in statuses) and len(statuses) == len(pairs) + len(claims):
                        verdict = lw.Verdict("unsat", None, 0.0, verdict.twin, "decided goal by goal", len(statuses))
        except Unsupported as e:
            res["inconclusive"].append("lowering: %r" % (e,))
            continue
        if verdict.twin == "unsat":
            res["inconclusive"].append("vacuity twin unsat (assumptions contradictory)")
            res["status"] = "harness"
            continue
        if verdict.status == "unsat":
            res["discharged"] += 1
            continue
        if verdict.status == "unknown":
            res["inconclusive"].append("solver unknown (%s) on %d goal pairs" % (verdict.reason, len(pairs)))
            continue
        # sat: which goals differ at the candidate point?
        bad = _num_diff(goals, cand_point)
        if not bad:
            res["inconclusive"].append("spurious model (terms agree numerically at the solver's point)")
            continue
        labels = sorted(set(l for l, _, _, _ in bad))
        cand = {"label": ",".join(labels), "kind": "value", "point": _clean(cand_point),
                "detail": "; ".join("%s[%d]: code=%.6g expected=%.6g" % b for b in bad[:4])}
        rep = _replay(case, cand, uses_rng)
        if rep[0]:
            cand["replay"] = rep[1]
            res["violations"].append(cand)
        else:
            res["inconclusive"].append("counterexample not reproduced on the plain code: %s (%s)" % (cand["detail"], rep[1]))
    if opts.ties and not res["violations"] and complete and path_goals:
        try:
            explore_ties(case, paths, path_goals, opts, rng, res, uses_rng)
        except Unsupported as e:
            res["inconclusive"].append("tie exploration: %r" % (e,))
    if res["violations"]:
        res["status"] = "violation"
    elif res["inconclusive"] and res["status"] == "ok":
        res["status"] = "inconclusive"
    res["funcs"] = sorted(funcs)
    res["queries"] = lw.STATS["queries"] - q0
    res["solver_s"] = round(lw.STATS["solver_s"] - s0, 4)
    res["twins_sat"] = lw.STATS["twin_sat"] - tw0
    res["runs"] = stats["runs"]
    res["wall_s"] = round(time.time() - t0, 3)
    res["nvars"] = len(CTX.vars)
    return res


# --------------------------------------------------------------------------------------------- ties / kinks
def _num_grad_of(d, model):
    """direction in input space that increases d (numeric gradient of the comparison term)"""
    vs = sorted(sc.node_vars(d))
    g = {}
    for v in vs:
        h = 1e-6
        m1 = dict(model)
        m2 = dict(model)
        m1[v] = model[v] + h
        m2[v] = model[v] - h
        g[v] = (sc.evalf(d, m1, {}) - sc.evalf(d, m2, {})) / (2 * h)
    return g


def _path_at(paths, point):
    memo = {}
    for i, pr in enumerate(paths):
        if pr.outcome is None or pr.error:
            continue
        if all(_holds(d, rel, point, memo) for d, rel in pr.pc):
            return i
    return None


def _hull_residual(G, E1, E2):
    """min over lambda in [0,1] of |G - (lambda E1 + (1-lambda) E2)|_inf, and the minimiser"""
    a = np.array(E1, dtype=float) - np.array(E2, dtype=float)
    b = np.array(G, dtype=float) - np.array(E2, dtype=float)
    den = float(a @ a)
    lam = float(a @ b) / den if den > 0 else 0.0
    lam = min(1.0, max(0.0, lam))
    r = b - lam * a
    return float(np.max(np.abs(r))) if r.size else 0.0, lam


def explore_ties(case, paths, path_goals, opts, rng, res, uses_rng):
    """two-way ties (codimension-1 kinks): at a point where exactly one order comparison is tied, the gradient the
    code leaves must be a valid subgradient - an element of the segment between the gradients of the two smooth
    pieces that meet there.  Discharged when z3 proves, on the whole tie set, that the code's gradient equals one
    of the two pieces or their midpoint; otherwise the tie point is replayed on the plain code (numeric hull test)."""
    cands = []
    seen_c = set()
    for pi, pr in enumerate(paths):
        if pi not in path_goals:
            continue
        for k, (d, rel) in enumerate(pr.pc):
            if rel not in (">", "<"):
                continue
            key = (d.id, frozenset((x.id, r) for j, (x, r) in enumerate(pr.pc) if j != k))
            if key in seen_c:
                continue
            seen_c.add(key)
            cands.append((pi, k))
    rng.shuffle(cands)
    done_sigs = set()
    nrun = 0
    for pi, k in cands:
        if nrun >= opts.max_ties:
            break
        pr = paths[pi]
        d, rel = pr.pc[k]
        # '!=' literals on data values only exclude measure-zero sets (and may be the very tie in another guise)
        tie_pc = [(x, r) for j, (x, r) in enumerate(pr.pc) if j != k and not (r == "!=" and not _all_hyper(x))] + [(d, "==")]
        # a generic point of the tie set: everything the tied comparison does not mention keeps the (random) value it
        # had on the strict path, the tied operands stay close to theirs
        dvars = sc.node_vars(d)
        pins = []
        for name, val in pr.model.items():
            if name not in CTX.vars:
                continue
            vn = CTX.vars[name].node
            if name in dvars:
                pins.append((sc.sub(vn, sc.const(round(val, 3) - 0.5)), ">"))
                pins.append((sc.sub(vn, sc.const(round(val, 3) + 0.5)), "<"))
            else:
                pins.append((sc.sub(vn, sc.const(val)), "=="))
        # ... and a *generic* one: every other strict comparison of the path holds with a margin, so that the two points
        # displaced to either side of the tie (margin/10) lie in the two pieces that actually meet there, not beyond a
        # neighbouring kink
        st, margin = "unknown", None
        for margin in (0.05, 0.005, 0.0005):
            mc = sc.const(margin)
            wide = [((sc.sub(x, mc), r) if r == ">" else (sc.add(x, mc), r)) if (r in (">", "<") and not _all_hyper(x)) else (x, r)
                    for x, r in tie_pc]
            st, pt, _ = lw.find_model(wide + pins, timeout_ms=min(opts.timeout_ms, 5000))
            if st != "sat":
                st, pt, _ = lw.find_model(wide, timeout_ms=min(opts.timeout_ms, 5000))
            if st == "sat":
                break
        if st != "sat":
            res["tie_skipped"] = res.get("tie_skipped", 0) + 1
            continue
        disp = margin / 10.0
        model = dict(pr.model)
        model.update(pt)
        if sc.evalf(d, model, {}) != 0.0:
            continue            # the tie is not exactly realisable in floating point at the solver's point
        tr, _ = run_symbolic(case, model, rng, allow_ties=True)
        nrun += 1
        if tr.error or tr.outcome is None or tr.outcome.vjp is None or tr.outcome.rejected is not None:
            continue
        eqs = [x for x, r in tr.pc if r == "==" and not _all_hyper(x) and x.id != d.id]
        multi = False
        for e in eqs:           # further equalities are fine when they are the same tie in another guise
            st2, _, _ = lw.find_model([(d, "=="), (e, "!=")], timeout_ms=2000)
            if st2 != "unsat":
                multi = True
                break
        if multi:
            continue            # more than one simultaneous tie: outside the bound
        sig = frozenset((x.id, r) for x, r in tr.pc)
        if sig in done_sigs:
            continue
        done_sigs.add(sig)
        direction = _num_grad_of(d, model)
        norm = math.sqrt(sum(v * v for v in direction.values())) or 1.0
        plus = dict(model)
        minus = dict(model)
        for v, c in direction.items():
            plus[v] = model[v] + disp * c / norm
            minus[v] = model[v] - disp * c / norm
        ia, ib = _path_at(paths, plus), _path_at(paths, minus)
        if ia is None or ib is None or ia not in path_goals or ib not in path_goals:
            continue
        tgoals, tfacts = _goal_pairs(tr.outcome, None)
        ea = {(l, i): e for l, i, o, e in path_goals[ia] if e is not None and l.startswith("grad(")}
        eb = {(l, i): e for l, i, o, e in path_goals[ib] if e is not None and l.startswith("grad(")}
        obs = [(l, i, o) for l, i, o, e in tgoals if e is not None and l.startswith("grad(") and (l, i) in ea and (l, i) in eb]
        if not obs:
            continue
        res["obligations"] += 1
        res.setdefault("tie_paths", 0)
        res["tie_paths"] += 1
        assumptions = tr.pc + tr.axioms
        half = sc.const(0.5)
        alts = [
            [(o, ea[(l, i)]) for l, i, o in obs],
            [(o, eb[(l, i)]) for l, i, o in obs],
            [(o, sc.mul(half, sc.add(ea[(l, i)], eb[(l, i)]))) for l, i, o in obs],
        ]
        ok = False
        for pairs in alts:
            v = lw.decide(pairs, assumptions, timeout_ms=opts.timeout_ms, twin=False)
            if v.status == "unsat":
                ok = True
                break
        if ok:
            res["discharged"] += 1
            continue
        # not one of the canonical choices: numeric hull test at the tie point, then replay on the plain code
        memo = {}
        G = [sc.evalf(o, model, memo) for l, i, o in obs]
        E1 = [sc.evalf(ea[(l, i)], model, memo) for l, i, o in obs]
        E2 = [sc.evalf(eb[(l, i)], model, memo) for l, i, o in obs]
        r, lam = _hull_residual(G, E1, E2)
        scale = max(1e-9, max(abs(x) for x in G + E1 + E2))
        if r <= 1e-7 * scale:
            res["inconclusive"].append("tie: the gradient is another valid subgradient (lambda=%.3f); not proved on the whole tie set" % lam)
            continue
        cand = {"label": "subgradient at a tie", "kind": "tie", "point": _clean(model),
                "direction": {v: c / norm for v, c in direction.items()}, "eps": disp,
                "detail": "at a tie of N%d the gradient is outside the segment between the gradients of the two adjacent "
                          "smooth pieces (distance %.4g): code=%s piece+=%s piece-=%s" % (
                              d.id, r, [round(x, 4) for x in G[:6]], [round(x, 4) for x in E1[:6]], [round(x, 4) for x in E2[:6]])}
        rep = replay_tie(case, cand, uses_rng)
        if rep[0]:
            cand["replay"] = rep[1]
            res["violations"].append(cand)
            return
        res["inconclusive"].append("tie candidate not reproduced on the plain code: " + rep[1])


def replay_tie(case, cand, uses_rng=False):
    """plain-code replay of a tie candidate: gradients of the two smooth pieces by central differences slightly to
    either side of the tie, code gradient at the tie point itself; reproduced iff the latter is outside the segment."""
    x0 = cand["point"]
    dirn = cand["direction"]
    base, err = run_plain(case, x0, "plain64", uses_rng)
    if err or base is None or base.vjp is None:
        return False, "plain run failed: %s" % err
    G = []
    labels = []
    for label, data, grad, requires in base.vjp["inputs"]:
        if requires and grad is not None:
            g, _ = flat_floats(grad)
            G += g
            labels += ["grad(%s)[%d]" % (label, i) for i in range(len(g))]
    sides = []
    eps = float(cand.get("eps", 1e-3))       # displacement to either side: inside the margin the tie point keeps from other kinks
    for sgn in (+1, -1):
        pt = dict(x0)
        for v, c in dirn.items():
            pt[v] = x0[v] + sgn * eps * c
        b2, fd, e = fd_gradients(case, pt, uses_rng, eps * 1e-3)
        if e or fd is None:
            return False, "finite differences failed: %s" % e
        E_ = []
        for label, data, grad, requires in base.vjp["inputs"]:
            if requires and grad is not None:
                E_ += list(fd.get(label, []))
        sides.append(E_)
    if len(sides[0]) != len(G) or len(sides[1]) != len(G):
        return False, "shape mismatch in replay"
    r, lam = _hull_residual(G, sides[0], sides[1])
    scale = max(1e-9, max(abs(x) for x in G + sides[0] + sides[1]))
    if r > 2e-3 * scale:
        worst = int(np.argmax(np.abs(np.array(G) - (lam * np.array(sides[0]) + (1 - lam) * np.array(sides[1])))))
        return True, ("at the tie point the code's gradient is not a convex combination of the two one-sided gradients "
                      "(best lambda=%.3f, distance %.4g): %s code=%.6g one-sided=%.6g / %.6g" % (
                          lam, r, labels[worst], G[worst], sides[0][worst], sides[1][worst]))
    return False, "code gradient lies on the segment between the one-sided gradients (lambda=%.3f)" % lam


def _replay(case, cand, uses_rng):
    if cand.get("kind") == "tie":
        return replay_tie(case, cand, uses_rng)
    rp = getattr(case, "replay", None)
    if rp is not None:
        return rp(cand)
    return replay_generic(case, cand, uses_rng)


def hash_sig(s):
    h = 2166136261
    for c in s.encode():
        h = ((h ^ c) * 16777619) & 0xFFFFFFFF
    return h


def _clean(model):
    return {k: (round(v, 6) if isinstance(v, float) else v) for k, v in model.items() if k in CTX.vars}


# --------------------------------------------------------------------------------------------- replay on plain code
def fd_gradients(case, point, uses_rng, h):
    """central differences of L = sum g*out w.r.t. every element of the inputs that require grad, on the
    un-instrumented float64 code."""
    base, err = run_plain(case, point, "plain64", uses_rng)
    if err or base is None or base.vjp is None:
        return None, None, err or "no vjp"

    def L_at(pt):
        o, e = run_plain(case, pt, "plain64", uses_rng)
        if e or o is None or o.vjp is None:
            return math.nan
        tot = 0.0
        for g, out in zip(base.vjp["gs"], o.vjp["outs"]):
            tot += float(np.sum(np.asarray(g, dtype=np.float64) * np.asarray(out, dtype=np.float64)))
        return tot
    fd = {}
    for label, data, grad, requires in base.vjp["inputs"]:
        if not requires:
            continue
        names = base.notes.get("names", {}).get(label)
        if names is None:
            continue
        vals = []
        for nm in names:
            p1 = dict(point)
            p2 = dict(point)
            p1[nm] = point[nm] + h
            p2[nm] = point[nm] - h
            vals.append((L_at(p1) - L_at(p2)) / (2 * h))
        fd[label] = vals
    return base, fd, None


def replay_generic(case, cand, uses_rng=False):
    """re-run the candidate on the un-instrumented code; -> (reproduced, detail)"""
    point = cand["point"]
    kind = cand["kind"]
    if kind == "exception":
        out, err = run_plain(case, point, "plain", uses_rng)
        if err is not None and getattr(err, "origin", "repo") != "repo":
            return False, "plain run stopped in the checking code, not in synapgrad (%s): %s" % (err.origin, err)
        if err is not None:
            return True, "plain run raises " + err
        return False, "plain run does not raise"
    if kind == "fact":
        out, err = run_plain(case, point, "plain", uses_rng)
        if err is not None:
            return False, "plain run raised " + err
        lab = cand["label"]
        for l, ok, detail in out.facts:
            if l == lab:
                return (not ok), detail
        # shape facts are recomputed from the plain outcome
        if lab.endswith(":shape"):
            for l, obs, exp in out.pairs:
                if l + ":shape" == lab:
                    return (np.shape(obs) != np.shape(exp)), "plain shapes %s vs %s" % (np.shape(obs), np.shape(exp))
        if out.vjp is not None:
            for label, data, grad, requires in out.vjp["inputs"]:
                if lab == label + ":grad-shape":
                    return (grad is None or np.shape(grad) != np.shape(data)), "plain grad shape %s vs %s" % (
                        None if grad is None else np.shape(grad), np.shape(data))
                if lab == label + ":grad-missing":
                    return grad is None, "plain grad is %s" % ("None" if grad is None else "present")
                if lab == label + ":no-grad":
                    return grad is not None, "plain grad present on a no-grad tensor"
        return False, "fact not found in plain run"
    # value
    out, err = run_plain(case, point, "plain64", uses_rng)
    if err is not None:
        return False, "plain run raised " + err
    msgs = []
    if cand.get("label") in ("plain run at the explored point", "interpreter crash"):
        # the whole plain outcome is judged, including its concrete facts (e.g. "an illegal argument is rejected")
        for l, ok, detail in out.facts:
            if not ok:
                msgs.append("%s: %s" % (l, detail))
    for l, obs, exp in out.pairs:
        o, osh = flat_floats(obs)
        e, esh = flat_floats(exp)
        if tuple(osh) != tuple(esh):
            return True, "%s: shapes %s vs %s" % (l, osh, esh)
        scl = _scale(e)
        for i, (a, b) in enumerate(zip(o, e)):
            if not abs(a - b) <= (getattr(case, "tol", None) or 1e-5) * scl and not (a != a and b != b):
                msgs.append("%s[%d]: code=%.8g reference=%.8g" % (l, i, a, b))
    for l, lhs, rel, rhs in out.claims:
        a, _ = flat_floats(lhs)
        b, _ = flat_floats(rhs)
        if len(b) == 1 and len(a) > 1:
            b = b * len(a)
        for i, (x, y) in enumerate(zip(a, b)):
            if not {">": x > y, ">=": x >= y, "<": x < y, "<=": x <= y}[rel]:
                msgs.append("%s[%d]: %.8g %s %.8g does not hold" % (l, i, x, rel, y))
    if out.vjp is not None:
        base, fd1, e1 = fd_gradients(case, point, uses_rng, 1e-5)
        _, fd2, e2 = fd_gradients(case, point, uses_rng, 1e-4)
        if e1 or e2:
            return False, "finite differences failed: %s" % (e1 or e2)
        for label, data, grad, requires in base.vjp["inputs"]:
            if not requires or label not in fd1:
                continue
            g, _ = flat_floats(grad) if grad is not None else ([math.nan] * len(fd1[label]), None)
            scl = _scale(fd1[label])
            for i, (a, f1, f2) in enumerate(zip(g, fd1[label], fd2[label])):
                if abs(f1 - f2) > 1e-4 * scl:
                    continue   # kink between the two step sizes: outside the claim
                if abs(a - f1) > 1e-3 * scl:
                    msgs.append("grad(%s)[%d]: code=%.8g finite-difference=%.8g" % (label, i, a, f1))
    if msgs:
        return True, "; ".join(msgs[:4])
    return False, "plain float64 run agrees with the oracle at this point"
