"""Reverse-mode differentiation over the *scalar* DAG: the derivative oracle.

It never sees a tensor, a shape or a kernel; it only knows d/dx of + * / exp log sqrt tanh.  On one path all
comparisons are constant, so the term of an output is a smooth function of the inputs there.
"""
from __future__ import annotations

from .scalar import add, mul, div, neg, const, sub


def topo(roots):
    order = []
    seen = set()
    st = [(r, 0) for r in roots]
    while st:
        n, i = st.pop()
        if i == 0:
            if n.id in seen:
                continue
            seen.add(n.id)
        if i < len(n.args):
            st.append((n, i + 1))
            st.append((n.args[i], 0))
        else:
            order.append(n)
    return order


def grad(L, wrt):
    """d L / d v for every var node v in ``wrt`` (list of nodes) -> list of nodes."""
    order = topo([L])
    adj = {L.id: const(1)}

    def acc(n, v):
        a = adj.get(n.id)
        adj[n.id] = v if a is None else add(a, v)

    for n in reversed(order):
        a = adj.get(n.id)
        if a is None or not n.args:
            continue
        x = n.args
        op = n.op
        if op == "add":
            acc(x[0], a)
            acc(x[1], a)
        elif op == "mul":
            acc(x[0], mul(a, x[1]))
            acc(x[1], mul(a, x[0]))
        elif op == "div":
            acc(x[0], div(a, x[1]))
            acc(x[1], neg(div(mul(a, n), x[1])))
        elif op == "exp":
            acc(x[0], mul(a, n))
        elif op == "log":
            acc(x[0], div(a, x[0]))
        elif op == "sqrt":
            acc(x[0], div(a, mul(const(2), n)))
        elif op == "tanh":
            acc(x[0], mul(a, sub(const(1), mul(n, n))))
        else:
            raise NotImplementedError(op)
    return [adj.get(v.id, const(0)) for v in wrt]


def inner(gs, outs):
    """L = sum_j g_j * out_j over flat lists of nodes."""
    L = const(0)
    for g, o in zip(gs, outs):
        L = add(L, mul(g, o))
    return L
