"""Lowering of the scalar DAG to z3: every node becomes a fraction (num, den) of division-free polynomial
expressions over the input variables and one fresh variable per function atom (exp/log/sqrt/tanh).
Raw terms with '/' defeat nlsat; cross-multiplied polynomial identities are decided in milliseconds.
"""
from __future__ import annotations

import time
from fractions import Fraction

import z3

from . import scalar as sc
from .scalar import CTX


class Lowering:
    def __init__(self, monotone=False, congruence=True):
        self.ctx = z3.Context()
        self.ONE = z3.RealVal(1, self.ctx)
        self.ZERO = z3.RealVal(0, self.ctx)
        self.memo = {}
        self.atoms = {}      # (op, arg node id) -> (z3 var, node, (argnum, argden))
        self.axioms = []     # z3 BoolRefs
        self.nonzero = {}    # id(den expr) -> expr
        self.vars = {}       # name -> z3 Real
        self.monotone = monotone
        self.congruence = congruence
        self._cong_done = 0

    # ------------------------------------------------------------------ helpers
    def pm(self, a, b):
        if z3.eq(a, self.ONE):
            return b
        if z3.eq(b, self.ONE):
            return a
        return a * b

    def rv(self, fr):
        if isinstance(fr, Fraction):
            if fr.denominator == 1:
                return z3.RealVal(fr.numerator, self.ctx)
            return z3.RealVal(str(fr.numerator) + "/" + str(fr.denominator), self.ctx)
        return z3.RealVal(fr, self.ctx)

    def zvar(self, name):
        v = self.vars.get(name)
        if v is None:
            v = self.vars[name] = z3.Real(name, self.ctx)
        return v

    # ------------------------------------------------------------------ node -> fraction
    def q(self, n):
        r = self.memo.get(n.id)
        if r is not None:
            return r
        st = [n]
        memo = self.memo
        while st:
            m = st[-1]
            if m.id in memo:
                st.pop()
                continue
            pend = [a for a in m.args if a.id not in memo]
            if pend:
                st.extend(pend)
                continue
            st.pop()
            memo[m.id] = self._one(m)
        return memo[n.id]

    def _one(self, n):
        op = n.op
        if op == "const":
            return (self.rv(n.val), self.ONE)
        if op == "var":
            return (self.zvar(n.val), self.ONE)
        if op == "inf":
            raise sc.Unsupported("infinity reached the solver")
        if op == "nan":
            raise sc.Unsupported("nan reached the solver")
        if op == "add":
            (a, b), (c, d) = self.memo[n.args[0].id], self.memo[n.args[1].id]
            if z3.eq(b, d):
                return (a + c, b)
            return (self.pm(a, d) + self.pm(c, b), self.pm(b, d))
        if op == "mul":
            (a, b), (c, d) = self.memo[n.args[0].id], self.memo[n.args[1].id]
            return (self.pm(a, c), self.pm(b, d))
        if op == "div":
            (a, b), (c, d) = self.memo[n.args[0].id], self.memo[n.args[1].id]
            self.nonzero[c.get_id()] = c
            return (self.pm(a, d), self.pm(b, c))
        # function atom
        (a, b) = self.memo[n.args[0].id]
        key = (op, n.args[0].id)
        ent = self.atoms.get(key)
        if ent is None:
            v = z3.Real("%s_%d" % (op, n.args[0].id), self.ctx)
            self.atoms[key] = (v, n, (a, b))
            ab = self.pm(a, b)
            if op == "exp":
                self.axioms.append(v > 0)
                if self.monotone:
                    self.axioms.append((ab > 0) == (v > 1))
                    self.axioms.append((ab == 0) == (v == 1))
                    # tangent at 0:  exp(u) >= 1 + u   (u = a/b ; multiply by b^2 > 0)
                    self.axioms.append(self.pm(v, self.pm(b, b)) >= self.pm(b, b) + ab)
                # a handful of coarse, sound landmarks: u <= c  =>  exp(u) <= hi_c ,  u >= c  =>  exp(u) >= lo_c
                bb2 = self.pm(b, b)
                for c_, lo_, hi_ in _EXP_LANDMARKS:
                    self.axioms.append(z3.Implies(ab <= self.pm(self.rv(Fraction(c_)), bb2), v <= self.rv(hi_)))
                    self.axioms.append(z3.Implies(ab >= self.pm(self.rv(Fraction(c_)), bb2), v >= self.rv(lo_)))
            elif op == "log":
                self.axioms.append(ab > 0)   # domain
                # two coarse, sound landmarks (log 1e-30 = -69.08, log 1e30 = 69.08): enough to refute clamps such as
                # max(log p, -100) on domains bounded away from 0, which the monotonicity axioms alone cannot
                bb = self.pm(b, b)
                self.axioms.append(z3.Implies(ab >= self.pm(self.rv(Fraction(1, 10 ** 30)), bb), v >= -70))
                self.axioms.append(z3.Implies(ab <= self.pm(self.rv(Fraction(10 ** 30)), bb), v <= 70))
                if self.monotone:
                    # log u > 0 <=> u > 1  (a/b > 1 <=> a*b > b*b)
                    self.axioms.append((ab > self.pm(b, b)) == (v > 0))
                    self.axioms.append((ab == self.pm(b, b)) == (v == 0))
            elif op == "sqrt":
                self.axioms.append(v >= 0)
                self.axioms.append(self.pm(self.pm(v, v), b) == a)
            elif op == "tanh":
                self.axioms.append(v > -1)
                self.axioms.append(v < 1)
                if self.monotone:
                    self.axioms.append((ab > 0) == (v > 0))
                    self.axioms.append((ab == 0) == (v == 0))
        else:
            v = ent[0]
        return (v, self.ONE)

    def congruence_axioms(self, limit=10):
        """arg_i == arg_j  =>  atom_i == atom_j  (and strict monotonicity when requested)."""
        out = []
        by_op = {}
        for (op, _), (v, node, (a, b)) in self.atoms.items():
            by_op.setdefault(op, []).append((v, a, b))
        for op, lst in by_op.items():
            if len(lst) > limit:
                continue
            for i in range(len(lst)):
                for j in range(i + 1, len(lst)):
                    v1, a1, b1 = lst[i]
                    v2, a2, b2 = lst[j]
                    eq = self.pm(a1, b2) == self.pm(a2, b1)
                    out.append(z3.Implies(eq, v1 == v2))
                    if self.monotone:
                        # a1/b1 < a2/b2  <=>  a1*b1*b2^2 < a2*b2*b1^2
                        lt = self.pm(self.pm(a1, b1), self.pm(b2, b2)) < self.pm(self.pm(a2, b2), self.pm(b1, b1))
                        out.append(lt == (v1 < v2))
        return out

    # ------------------------------------------------------------------ formulas
    def rel(self, n, rel):
        a, b = self.q(n)
        e = self.pm(a, b) if not z3.eq(b, self.ONE) else a
        if rel == ">":
            return e > 0
        if rel == "<":
            return e < 0
        if rel == ">=":
            return e >= 0
        if rel == "<=":
            return e <= 0
        if rel == "==":
            return a == 0
        if rel == "!=":
            return a != 0
        if rel == "apart":
            # |n| > TIE_BAND: a thin band around a tie surface (narrower than what floating point can resolve) is left out
            dl = z3.RealVal(TIE_BAND, self.ctx)
            if z3.eq(b, self.ONE):
                return z3.Or(a > dl, a < -dl)
            return z3.Or((a - dl * b) * b > 0, (a + dl * b) * b < 0)
        raise ValueError(rel)

    def neq(self, x, y, normalise=False):
        (a, b), (c, d) = self.q(x), self.q(y)
        lhs, rhs = (a, c) if z3.eq(b, d) else (self.pm(a, d), self.pm(c, b))
        if normalise:
            # z3's own polynomial normaliser (sum of monomials): a goal whose two sides are the same polynomial becomes
            # `0 != 0`, which the solver refutes at once instead of sending a high-degree identity to nlsat
            e = z3.simplify(lhs - rhs, som=True)
            if z3.is_rational_value(e) and e.numerator_as_long() == 0:
                return z3.BoolVal(False, self.ctx)
            return e != 0
        return lhs != rhs

    def domain(self, names=None):
        out = []
        for name, vi in CTX.vars.items():
            if names is not None and name not in names:
                continue
            v = self.zvar(name)
            if vi.lo is not None:
                out.append(v > self.rv(_fr(vi.lo)) if vi.lo_strict else v >= self.rv(_fr(vi.lo)))
            if vi.hi is not None:
                out.append(v < self.rv(_fr(vi.hi)) if vi.hi_strict else v <= self.rv(_fr(vi.hi)))
            if vi.nonzero:
                out.append(v != 0)
        return out

    def side_conditions(self):
        out = list(self.axioms) + [c != 0 for c in self.nonzero.values()] + (
            self.congruence_axioms() if self.congruence else [])
        if CTX.xr is not None or getattr(CTX, "xr_axioms", False):
            from . import xr as _xr
            out += _xr.axioms(self, z3)
        return out

    def model_point(self, m):
        """z3 model -> {var name: float} for the input variables (missing ones keep the current model)."""
        pt = {}
        for name, zv in self.vars.items():
            val = m.eval(zv, model_completion=True)
            pt[name] = _z3_to_float(val)
        return pt


def _fr(v):
    if isinstance(v, Fraction):
        return v
    if isinstance(v, int):
        return Fraction(v)
    return Fraction(str(v)) if isinstance(v, float) and abs(v) < 1e15 and len(repr(v)) < 12 else Fraction(v)


def _z3_to_float(val):
    if z3.is_rational_value(val):
        return float(Fraction(val.numerator_as_long(), val.denominator_as_long()))
    if z3.is_algebraic_value(val):
        return float(val.approx(20).as_fraction())
    try:
        return float(val.as_decimal(17).rstrip("?"))
    except Exception:
        return 0.0


def _exp_landmarks():
    import math
    out = []
    for c in (-50, -10, -3, -1, 1, 3, 10, 50):
        e = Fraction(math.exp(c))
        out.append((c, e * Fraction(999999, 1000000), e * Fraction(1000001, 1000000)))      # float exp is accurate to ~1e-16 relative
    return out


_EXP_LANDMARKS = _exp_landmarks()


class Verdict:
    __slots__ = ("status", "point", "time", "twin", "reason", "queries")

    def __init__(self, status, point=None, time=0.0, twin=None, reason="", queries=0):
        self.status = status    # 'unsat' | 'sat' | 'unknown'
        self.point = point
        self.time = time
        self.twin = twin        # status of the vacuity twin
        self.reason = reason
        self.queries = queries


STATS = {"queries": 0, "solver_s": 0.0, "unsat": 0, "sat": 0, "unknown": 0, "twin_sat": 0, "twin_unknown": 0,
         "twin_unsat": 0}


def decide(pairs, pc, *, extra=(), pin=None, timeout_ms=30000, twin=True, box=None, monotone=False,
           dump=None, claims=()):
    """Is there a point inside the domain, on the path ``pc``, where some pair differs?

    pairs: [(node_a, node_b)]; pc / extra: [(node, rel)]; pin: {var: float} pins input variables;
    box: (lo, hi) additional well-conditioned box for every data variable (identity goals only).
    """
    t0 = time.time()
    lw = Lowering(monotone=monotone)
    goals = []
    for a, b in pairs:
        if a is b:
            continue
        goals.append(lw.neq(a, b))
    for d, rel in claims:      # inequality claims  d rel 0  that must hold: the goal is their negation
        goals.append(z3.Not(lw.rel(d, rel)))
    assumptions = [lw.rel(d, rel) for d, rel in pc] + [lw.rel(d, rel) for d, rel in extra]
    assumptions += lw.domain()
    if box is not None:
        for name, vi in CTX.vars.items():
            if vi.kind == "data":
                assumptions.append(lw.zvar(name) >= box[0])
                assumptions.append(lw.zvar(name) <= box[1])
    if pin:
        for name, val in pin.items():
            assumptions.append(lw.zvar(name) == lw.rv(Fraction(val)))
    assumptions += lw.side_conditions()
    s = z3.Solver(ctx=lw.ctx)
    s.set("timeout", int(timeout_ms))
    for a in assumptions:
        s.add(a)
    nq = 0
    twin_status = None
    if not goals:
        STATS["queries"] += 0
        return Verdict("unsat", time=time.time() - t0, twin="skipped", reason="all pairs syntactically identical",
                       queries=0)
    if twin and not pin:
        s2 = z3.Solver(ctx=lw.ctx)
        s2.set("timeout", int(min(timeout_ms, 10000)))
        for a in assumptions:
            s2.add(a)
        twin_status = str(s2.check())
        nq += 1
        STATS["twin_" + twin_status] += 1
    s.add(z3.Or(*goals) if len(goals) > 1 else goals[0])
    r = str(s.check())
    if r == "unknown" and pairs and not pin:
        # second attempt with the goals in polynomial normal form (see Lowering.neq)
        s = z3.Solver(ctx=lw.ctx)
        s.set("timeout", int(timeout_ms))
        for a in assumptions:
            s.add(a)
        goals = [lw.neq(a, b, normalise=True) for a, b in pairs if a is not b] + [z3.Not(lw.rel(d, rel)) for d, rel in claims]
        s.add(z3.Or(*goals) if len(goals) > 1 else goals[0])
        r = str(s.check())
        nq += 1
        STATS["normalised_retry_" + r] = STATS.get("normalised_retry_" + r, 0) + 1
    if dump is not None and r in ("sat", "unsat"):
        # solver diff (thorough tier, seeded sample): the same query through the z3 4.8.12 and cvc5 1.0.3 binaries
        dump.append(cross_check(s.to_smt2(), r))
    nq += 1
    dt = time.time() - t0
    STATS["queries"] += nq
    STATS["solver_s"] += dt
    STATS[r] += 1
    point = None
    if r == "sat":
        point = lw.model_point(s.model())
    reason = s.reason_unknown() if r == "unknown" else ""
    return Verdict(r, point, dt, twin_status, reason, nq)


def cross_check(smt2, expected, timeout=60):
    """-> dict(z3_old=..., cvc5=..., agree=bool): `unknown`/timeouts of the other solvers are not disagreements"""
    import os
    import subprocess
    import tempfile
    text = "(set-logic QF_NRA)\n" + "\n".join(ln for ln in smt2.splitlines() if not ln.startswith("(set-info")) + "\n"
    if "(check-sat)" not in text:
        text += "(check-sat)\n"
    out = {"expected": expected}
    with tempfile.NamedTemporaryFile("w", suffix=".smt2", delete=False) as f:
        f.write(text)
        path = f.name
    try:
        for name, cmd in (("z3_4.8.12", ["/usr/bin/z3", "-T:%d" % timeout, path]),
                          ("cvc5_1.0.3", ["cvc5", "--tlimit=%d" % (timeout * 1000), path])):
            try:
                p = subprocess.run(cmd, capture_output=True, text=True, timeout=timeout + 10)
                ans = [ln.strip() for ln in p.stdout.splitlines() if ln.strip() in ("sat", "unsat", "unknown")]
                out[name] = "error" if "(error" in p.stdout + p.stderr else (ans[-1] if ans else "unknown")
            except subprocess.TimeoutExpired:
                out[name] = "timeout"
    finally:
        os.unlink(path)
    out["agree"] = all(out[k] in (expected, "unknown", "timeout", "error") for k in ("z3_4.8.12", "cvc5_1.0.3"))
    out["confirmed_by"] = [k for k in ("z3_4.8.12", "cvc5_1.0.3") if out[k] == expected]
    return out


TIE_BAND = "1/1000000000"


def find_model(constraints_pc, *, neg_paths=(), timeout_ms=10000, monotone=True, prefer=None):
    """A point in the domain satisfying ``constraints_pc`` (a list of (node, rel)) and lying on none of the
    already explored paths ``neg_paths`` (each a list of (node, rel)).  Used by the path explorer and for the
    coverage query (constraints_pc = [])."""
    t0 = time.time()
    lw = Lowering(monotone=monotone)
    s = z3.Solver(ctx=lw.ctx)
    s.set("timeout", int(timeout_ms))
    cs = [lw.rel(d, rel) for d, rel in constraints_pc]
    for path in neg_paths:
        # data comparisons: the complement of d > 0 is taken as d < 0 (the tie set d == 0 is a kink, outside the claim);
        # comparisons between hyper-parameters / labels: true negation, equality is a legitimate configuration
        lits = []
        for d, rel in path:
            vs = sc.node_vars(d)
            hyper = bool(vs) and all(CTX.vars[v].kind == "hyper" for v in vs)
            if hyper or rel in ("==", "!="):
                lits.append(z3.Not(lw.rel(d, rel)))
            else:
                lits.append(lw.rel(d, {">": "<", "<": ">"}[rel]))
        if not lits:
            cs.append(z3.BoolVal(False, lw.ctx))
        else:
            cs.append(z3.Or(*lits) if len(lits) > 1 else lits[0])
    cs += lw.domain()
    cs += lw.side_conditions()
    for c in cs:
        s.add(c)
    r = str(s.check())
    dt = time.time() - t0
    STATS["queries"] += 1
    STATS["solver_s"] += dt
    if r == "sat":
        return "sat", lw.model_point(s.model()), dt
    return r, None, dt
