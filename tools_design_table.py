#!/usr/bin/env python3
"""regenerate the seeded-change table of DESIGN.md (between the SEED-TABLE markers) from seeded/*/meta.json"""
import json, os, re
V = os.path.dirname(os.path.abspath(__file__))
rows = []
n = miss = 0
for sid in sorted(os.listdir(os.path.join(V, "seeded"))):
    mp = os.path.join(V, "seeded", sid, "meta.json")
    if not os.path.exists(mp):
        continue
    m = json.load(open(mp))
    n += 1
    hist = (m.get("history") or "").replace("|", "/").replace("\n", " ")
    if hist.startswith("missed"):
        miss += 1
    rows.append("| %s | %s | %s | %s | %s |" % (sid, m["breaks_property"], m["needs_to_manifest"].replace("|", "/").replace("\n", " "),
                                             ", ".join(m["caught_by"]) or "-", hist))
table = "| seed | property | what it needs | caught by | note |\n|------|----------|---------------|-----------|------|\n" + "\n".join(rows) + "\n"
p = os.path.join(V, "DESIGN.md")
s = open(p).read()
b, e = "<!-- SEED-TABLE-BEGIN -->\n", "<!-- SEED-TABLE-END -->\n"
s = s[:s.index(b) + len(b)] + table + s[s.index(e):]
open(p, "w").write(s)
print(n, "seeds,", miss, "missed at first")
