#!/bin/sh
# usage: tools_refactor_verify.sh <dir with patch.diff> [check ids...]
# applies a behaviour-preserving refactor to a scratch worktree and runs the quick checks against it: any VIOLATION is a
# false alarm (or a behavioural difference the refactor introduced - triage by hand)
D=$1; shift
N=$(basename $D)
WT=/tmp/refverify_${N}_$$; OUT=/tmp/refverify_out_${N}_$$
rm -rf $OUT; mkdir -p $OUT
git -C /repo worktree remove --force $WT 2>/dev/null
git -C /repo worktree add -q $WT ${BASE:-HEAD} || exit 9
git -C $WT apply $D/patch.diff || { echo "PATCH DOES NOT APPLY"; git -C /repo worktree remove --force $WT; exit 8; }
cd /verif
CHECKS="$@"
[ -z "$CHECKS" ] && CHECKS="C01 C02 C03 C04 C05 C06 C08 C09 C10 C11 C13 C14 C15 C16 C18 C20 C07 C12"
for c in $CHECKS; do
  VERIF_OUT=$OUT VERIF_REPO=$WT ./vcheck $c quick > $OUT/$c.log 2>&1
  echo "$c exit=$? violations=$(grep -c '^VIOLATION' $OUT/$c.log) :: $(grep "^$c quick" $OUT/$c.log | cut -c1-220)"
  grep "^  case\|^  partition\|^  inconclusive" $OUT/$c.log | head -4 | cut -c1-260
done
git -C /repo worktree remove --force $WT
