#!/usr/bin/env python3
"""adopt a seeded change delivered by a sub-agent: copy patch/demo/notes from <src> into seeded/<id>/ and write meta.json
usage: tools_seed_adopt.py <id> <src dir> <verify log> <caught_by comma list or -> <needs_to_manifest> [history]"""
import json, os, shutil, sys
V = os.path.dirname(os.path.abspath(__file__))
sid, src, log, caught, needs = sys.argv[1:6]
hist = sys.argv[6] if len(sys.argv) > 6 else ""
d = os.path.join(V, "seeded", sid)
os.makedirs(d, exist_ok=True)
for f in ("patch.diff", "demo.py", "notes.md"):
    shutil.copy(os.path.join(src, f), os.path.join(d, f))
txt = open(log).read()
lines = dict(l.split("=", 1) for l in txt.splitlines() if l.startswith("demo_") and "=" in l)
suite = [l for l in txt.splitlines() if l.startswith("suite:")]
meta = {"id": sid, "breaks_property": sid[:3], "needs_to_manifest": needs,
        "author": "independent sub-agent given only the property text and a scratch worktree",
        "confirmed": {"applies_to_repo_head_at_the_time": True,
                      "suite_with_change": suite[0][7:].strip() if suite else "see suite_log",
                      "demo_clean_exit": int(lines.get("demo_clean_exit", -1)), "demo_changed_exit": int(lines.get("demo_patched_exit", -1)),
                      "command": "./tools_seed_verify.sh seeded/%s quick %s" % (sid, " ".join(c for c in caught.split(",") if c != "-"))},
        "caught_by": [c for c in caught.split(",") if c != "-"], "history": hist, "verify_log": txt[-3000:]}
json.dump(meta, open(os.path.join(d, "meta.json"), "w"), indent=1)
print("adopted", sid, meta["caught_by"])
