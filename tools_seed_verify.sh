#!/bin/sh
# usage: tools_seed_verify.sh <seed dir with patch.diff + demo.py> <tier> <check ids...>
# applies the patch to a scratch worktree of /repo HEAD, confirms: suite unchanged, demo fails with / passes without,
# then runs the named checks against the patched tree (VERIF_REPO) and reports whether each raises VIOLATION.
D=$1; shift; TIER=$1; shift
N=$(basename $D)
WT=/tmp/seedverify_${N}_$$; OUT=/tmp/seedverify_out_${N}_$$
rm -rf $OUT; mkdir -p $OUT
git -C /repo worktree remove --force $WT 2>/dev/null
git -C /repo worktree add -q $WT HEAD || exit 9
cd $WT
PYTHONPATH=$WT /venv/bin/python $D/demo.py >$OUT/demo_clean.log 2>&1; echo "demo_clean_exit=$?"
git apply $D/patch.diff || { echo "PATCH DOES NOT APPLY"; git -C /repo worktree remove --force $WT; exit 8; }
PYTHONPATH=$WT /venv/bin/python $D/demo.py >$OUT/demo_patched.log 2>&1; echo "demo_patched_exit=$?"; tail -1 $OUT/demo_patched.log | cut -c1-200
if [ -z "$SKIP_SUITE" ]; then echo "suite: $(PYTHONPATH=$WT /venv/bin/python -m pytest -q -p no:cacheprovider --timeout=900 2>&1 | tail -1)"; fi
cd /verif
for c in "$@"; do
  VERIF_OUT=$OUT VERIF_REPO=$WT ./vcheck $c $TIER > $OUT/$c.log 2>&1; echo "check $c $TIER exit=$? violations=$(grep -c '^VIOLATION' $OUT/$c.log)"; grep "^  case" $OUT/$c.log | head -2 | cut -c1-220
done
git -C /repo worktree remove --force $WT
